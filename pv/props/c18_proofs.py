"""
C18 - attribute proofs accept the true value and reject others.

(a) ``FP2Value`` against an independent implementation of F_p[x]/(x^2+x+1) (``pv.fp2ref``): every operator, on
    operands with general denominators, for every prime = 2 (mod 3) below 200 (coefficient grids), random 32..128
    bit primes and a fixed 255-bit prime (polynomial identity testing: numerator and denominator of + - * // are
    polynomials of degree 2 in the twelve coefficients with small integer coefficients, "denotes the reference result"
    is a polynomial identity of degree <= 4, so a wrong formula survives one uniform sample of the 255-bit field with
    probability <= 4/2^254, and a formula that agrees there agrees over Z, i.e. for every modulus).
(b) exact-match attestations (three hash formats) with a fresh key per case: the aggregate after all challenges is the
    independently computed bit-pair profile, certainty(true) = 1 - 2^-n, certainty(rival with another profile) = 0.
(c) range proofs: honest in-range proofs verify, dishonest ones (other range, cheating prover for an outside value,
    altered responses / commitments) never do.
(d) serialisation round trips of integers, keys, bit-pair and range attestations.
"""
from __future__ import annotations

import hashlib
import random
import signal
from functools import lru_cache

from .. import fp2ref as R
from ..core import Ctx, HarnessError, Violation, derive, hyp_run, shard_run

PID = "C18"
LEVEL = "exploration"
EXHAUSTIVE = False
RULE = ("[plus: honest range proofs for end-point challenges of the verifier's generator; several distinct keys loaded, used and dropped in turn] (a) FP2Value operands = six coefficients (numerator and denominator of degree 2); every operator result is "
        "mapped to the field element it denotes and compared with pv.fp2ref (reduced pairs, explicit inverses). "
        "Grids: all operand pairs with coefficients in {0,1} for each of the 24 primes = 2 mod 3 below 200 (all of "
        "F_2's 64 representations), in {0,1,p-1} for p in {5,11,17} (thorough: all 24 primes, plus {0,1,2,p-1} for "
        "p in {5,11}); all p^6 representations of p in {2,5} for the unary operators. Random: coefficients uniform in "
        "[0,p) at a fixed 255-bit prime (Schwartz-Zippel samples, class a:p255-uniform), mixed uniform / special / out "
        "of range coefficients at that prime, at 32..128-bit primes "
        "derived from the seed, with compositions (associativity, distributivity, cancellation) evaluated through "
        "the same per-operator comparison. Operands whose denominator is 0 in the field are skipped by construction "
        "and counted. Non-trivial (a) = both operands have a non-zero x coefficient in the reduced denominator. "
        "(b) fresh Boneh key per case (seeded, 32-bit primes; thorough also 64), value bytes x hash format x challenge "
        "order x prefix length; non-trivial = n >= 16 bit pairs and a rival value whose profile is one pair-move away. "
        "Also the three-node protocol run (attester, subject, verifier on AttestationCommunity with the shipped "
        "formats). (c) ranges 0 <= a <= b < 2^16, b >= 1, value inside incl. boundaries; honest prover, and dishonest "
        "ones: same proof for a range excluding the value, each response component shifted, exchanged value "
        "commitment, cheating prover for a value outside the range whose proof is consistent except for the sign of one "
        "response; non-trivial = honest proof accepted and at least one cheating proof was built without error. "
        "(d) round trips on everything produced in (b), (c) and on drawn integers (non-trivial: a negative integer and "
        "one above 255). distinct = digest of the case.")
ASSUMPTIONS = [
    "pv.fp2ref is a correct implementation of F_p[x]/(x^2+x+1) (it self-checks every inverse it computes)",
    "moduli are primes = 2 (mod 3), the only ones generate_prime produces; Miller-Rabin with fixed bases decides "
    "primality (deterministic below 3.3e24)",
    "cryptographic soundness beyond the algebra listed in the statement is trusted; 32-bit key primes exercise the "
    "same code path as larger ones",
    "the Rust prime generator is replaced by a seeded pure-Python safe-prime search so that keys are a function of "
    "the case seed; os.urandom inside the range-proof modules and the protocol driver is replaced by a seeded stream "
    "for the same reason",
    "a case that exceeds 25 s of CPU time (non-terminating retry loop) is inconclusive, not a violation",
    "a key holder who uses the group order n to lift negative responses (x + j n) defeats the range proof; that is a "
    "property of the scheme as designed (DESIGN C18/L) and is not flagged",
]

ONE6 = [1, 0, 0, 1, 0, 0]
ZERO6 = [0, 0, 0, 1, 0, 0]


# ======================================================================================================
# (a) field arithmetic
# ======================================================================================================

def _fp(p: int, co):
    from ipv8.attestation.wallet.primitives.value import FP2Value
    return FP2Value(p, *co)


def _co(v) -> list:
    return [v.a, v.b, v.c, v.aC, v.bC, v.cC]


def _val(v):
    return R.value6(v.mod, _co(v))


def _show(v) -> str:
    return "(%d + %dx + %dx^2)/(%d + %dx + %dx^2)" % tuple(_co(v))


_IMPL = {
    "add": lambda l, r: l + r,
    "sub": lambda l, r: l - r,
    "mul": lambda l, r: l * r,
    "floordiv": lambda l, r: l // r,
}
_REF = {"add": R.add, "sub": R.sub, "mul": R.mul, "floordiv": R.div}
_SYM = {"add": "+", "sub": "-", "mul": "*", "floordiv": "//"}


class _Field:
    """
    Evaluates one field case; every operator application is compared with the reference on the operands it was
    actually given. A failed application yields None so that nothing is derived from a wrong intermediate.
    """

    def __init__(self, case: dict) -> None:
        self.case = case
        self.p = case["p"]
        self.fails: dict[tuple, Violation] = {}
        self.skipped = 0
        self._vals: dict[int, tuple] = {}

    def val(self, v):
        """
        Field element denoted by an FP2Value (memoised per object; the object is kept alive with its entry).
        """
        hit = self._vals.get(id(v))
        if hit is None or hit[0] is not v:
            hit = (v, R.value6(v.mod, (v.a, v.b, v.c, v.aC, v.bC, v.cC)))
            self._vals[id(v)] = hit
        return hit[1]

    def fail(self, clause: str, site: str, msg: str) -> None:
        if (clause, site) not in self.fails:
            self.fails[(clause, site)] = Violation(clause, site, f"p={self.p}: {msg}", self.case)

    # -- operators -------------------------------------------------------------------------------------
    def bin(self, name: str, l, r):
        if l is None or r is None:
            return None
        lv, rv = self.val(l), self.val(r)
        if lv is None or rv is None:
            self.skipped += 1
            return None
        if name == "floordiv" and rv == (0, 0):
            self.skipped += 1
            return None
        try:
            res = _IMPL[name](l, r)
        except Exception as e:  # arithmetic on admissible operands has no reason to raise
            self.fail("A1", name, f"{_show(l)} {_SYM[name]} {_show(r)} raised {e!r}")
            return None
        exp = _REF[name](self.p, lv, rv)
        got = self.val(res)
        if got != exp:
            self.fail("A1", name, f"{_show(l)} {_SYM[name]} {_show(r)} gives {_show(res)} which denotes {got}; the "
                                  f"operands denote {lv} and {rv}, so the result must denote {exp}")
            return None
        return res

    def eq(self, l, r, site: str = "eq"):
        """
        Implementation-level ``==`` must coincide with equality of the denoted field elements.
        """
        if l is None or r is None:
            return None
        lv, rv = self.val(l), self.val(r)
        if lv is None or rv is None:
            self.skipped += 1
            return None
        try:
            got = l == r
        except Exception as e:
            self.fail("A1", site, f"{_show(l)} == {_show(r)} raised {e!r}")
            return None
        if bool(got) != (lv == rv):
            self.fail("A1", site, f"{_show(l)} == {_show(r)} is {got} but the operands denote {lv} and {rv}")
            return None
        if lv == rv and hash(l) != hash(r):
            self.fail("A1", "hash", f"equal values {_show(l)} and {_show(r)} hash differently")
        return got

    def inverse(self, x):
        if x is None:
            return None
        xv = self.val(x)
        if xv is None or xv == (0, 0):
            self.skipped += 1
            return None
        try:
            res = x.inverse()
        except Exception as e:
            self.fail("A1", "inverse", f"inverse of {_show(x)} raised {e!r}")
            return None
        if self.val(res) != R.inv(self.p, xv):
            self.fail("A1", "inverse", f"inverse of {_show(x)} (denotes {xv}) gives {_show(res)} denoting {self.val(res)}, "
                                       f"expected {R.inv(self.p, xv)}")
            return None
        return res

    def normalize(self, x):
        if x is None:
            return None
        xv = self.val(x)
        if xv is None:
            self.skipped += 1
            return None
        try:
            res = x.normalize()
        except Exception as e:
            self.fail("A1", "normalize", f"normalize of {_show(x)} raised {e!r}")
            return None
        if self.val(res) != xv:
            self.fail("A1", "normalize", f"normalize of {_show(x)} (denotes {xv}) gives {_show(res)} denoting {self.val(res)}")
            return None
        if x.aC % self.p != 0 and res.aC != 1:
            self.fail("A1", "normalize", f"normalize of {_show(x)} gives {_show(res)}: aC is invertible but the result "
                                         f"does not have aC = 1")
            return None
        return res

    def intpow(self, x, k: int):
        if x is None:
            return None
        xv = self.val(x)
        if xv is None or (xv == (0, 0) and k <= 0):
            self.skipped += 1
            return None
        try:
            res = x.intpow(k)
        except Exception as e:
            self.fail("A1", "intpow", f"{_show(x)}.intpow({k}) raised {e!r}")
            return None
        exp = R.power(self.p, xv, k)
        if self.val(res) != exp:
            self.fail("A1", "intpow", f"{_show(x)}.intpow({k}) gives {_show(res)} denoting {self.val(res)}; the base denotes "
                                      f"{xv}, expected {exp}")
            return None
        return res

    def compress(self, x) -> None:
        """
        ``wp_compress`` and ``wp_nominator() * wp_denom_inverse()``: the same element as a plain pair.
        """
        if x is None or x.c != 0 or x.cC != 0:
            return
        xv = self.val(x)
        if xv is None:
            self.skipped += 1
            return
        for site, fn in (("wp_compress", lambda: x.wp_compress()),
                         ("wp_denom_inverse", lambda: x.wp_nominator() * x.wp_denom_inverse())):
            try:
                res = fn()
            except Exception as e:
                self.fail("A1", site, f"{site} of {_show(x)} raised {e!r}")
                continue
            if self.val(res) != xv:
                self.fail("A1", site, f"{site} of {_show(x)} (denotes {xv}) gives {_show(res)} denoting {self.val(res)}")
            elif (res.c, res.aC, res.bC, res.cC) != (0, 1 % self.p, 0, 0):
                self.fail("A1", site, f"{site} of {_show(x)} gives {_show(res)}, which is not a plain pair a + bx")

    # -- compositions ------------------------------------------------------------------------------------
    def law(self, name: str, lhs, rhs) -> None:
        if lhs is None or rhs is None:
            return
        if self.val(lhs) != self.val(rhs):   # unreachable unless an operator failure went unnoticed
            self.fail("A2", name, f"{name}: sides denote {self.val(lhs)} and {self.val(rhs)}")
            return
        if self.eq(lhs, rhs, "eq") is False:
            self.fail("A2", name, f"{name}: sides {_show(lhs)} and {_show(rhs)} compare unequal")


def _rerepresent(p: int, co: list, s: list, t: list) -> list | None:
    """
    Another representation of the same element: numerator and denominator multiplied by the non-zero element
    s and shifted by multiples of 1 + x + x^2 (which is 0).
    """
    sv = R.red3(p, *s)
    if sv == (0, 0):
        return None
    n = R.mul(p, R.red3(p, co[0], co[1], co[2]), sv)
    d = R.mul(p, R.red3(p, co[3], co[4], co[5]), sv)
    return [n[0] + t[0], n[1] + t[0], t[0], d[0] + t[1], d[1] + t[1], t[1]]


def field_eval(case: dict, mode: str = "full") -> _Field:
    p = case["p"]
    f = _Field(case)
    x, y = _fp(p, case["x"]), _fp(p, case["y"])
    if f.val(x) is None or f.val(y) is None:
        f.skipped += 1
        return f
    for name in ("add", "sub", "mul", "floordiv"):
        f.bin(name, x, y)
    f.eq(x, y)
    if mode == "binary":
        return f
    for name in ("add", "sub", "mul", "floordiv"):
        f.bin(name, y, x)
    # unary operators
    for v in (x, y):
        f.inverse(v)
        f.normalize(v)
        f.normalize(f.inverse(v))
        f.compress(_fp(p, [v.a, v.b, 0, v.aC, v.bC, 0]))
    for k in case.get("ks", []):
        f.intpow(x, k)
    # equality on re-represented / perturbed operands
    xr = _rerepresent(p, case["x"], case.get("s", [1, 0, 0]), case.get("t", [0, 0]))
    if xr is not None:
        x2 = _fp(p, xr)
        f.eq(x, x2)
        f.eq(x2, x)
        f.bin("sub", x, x2)
        f.bin("floordiv", x2, x)
        x3 = _fp(p, [xr[0] + 1] + xr[1:])
        f.eq(x, x3)
    f.eq(x, x)
    one, zero = _fp(p, ONE6), _fp(p, ZERO6)
    f.eq(x, zero)
    f.eq(zero, x)
    f.eq(x, one)
    # compositions; every intermediate application is compared with the reference as well
    z = _fp(p, case.get("z", ONE6))
    if f.val(z) is not None:
        B = f.bin
        f.law("add_commutes", B("add", x, y), B("add", y, x))
        f.law("mul_commutes", B("mul", x, y), B("mul", y, x))
        f.law("add_associates", B("add", B("add", x, y), z), B("add", x, B("add", y, z)))
        f.law("mul_associates", B("mul", B("mul", x, y), z), B("mul", x, B("mul", y, z)))
        f.law("distributes", B("mul", x, B("add", y, z)), B("add", B("mul", x, y), B("mul", x, z)))
        f.law("add_then_sub", B("sub", B("add", x, y), y), x)
        f.law("sub_then_add", B("add", B("sub", x, y), y), x)
        f.law("mul_inverse", B("mul", x, f.inverse(x)), one)
        f.law("div_self", B("floordiv", x, x), one)
        f.law("sub_self", B("sub", x, x), zero)
        f.law("div_then_mul", B("mul", B("floordiv", x, y), y), x)
        f.law("add_zero", B("add", x, zero), x)
        f.law("mul_one", B("mul", x, one), x)
        f.law("neg", B("add", x, B("mul", _fp(p, [-1, 0, 0, 1, 0, 0]), x)), zero)
        f.normalize(B("floordiv", B("sub", x, y), B("sub", y, z)))
        f.compress(B("floordiv", B("mul", x, y), z) if (x.c, x.cC, y.c, y.cC) == (0, 0, 0, 0) else None)
    return f


def _field_nontrivial(case: dict) -> bool:
    p = case["p"]
    return all((co[4] - co[5]) % p != 0 for co in (case["x"], case["y"]))


def _field_cls(case: dict) -> str:
    b = case["p"].bit_length()
    if case.get("uniform"):
        return "a:p255-uniform"
    return "a:p<200" if case["p"] < 200 else "a:p255" if b >= 250 else "a:p32-128"


_SMALL = (2, 5, 11, 17, 23, 29, 41, 47)


def _minimise(case: dict, sig: tuple, budget: int = 400) -> tuple[dict, str]:
    """
    Greedy reduction of a failing field case keeping the signature (generated cases are shrunk by Hypothesis;
    this serves the enumerated / seeded ones and secondary signatures).
    """
    # keep the failure on the case's own operands when it is there (the message then talks about x and y)
    mode = "binary" if sig in field_eval(case, "binary").fails else "full"

    def still(c: dict) -> bool:
        try:
            return sig in field_eval(c, mode).fails
        except Exception:
            return False

    best = dict(case)
    tries = 0
    for key, simple in (("z", ONE6), ("ks", []), ("s", [1, 0, 0]), ("t", [0, 0])):
        if best.get(key) != simple:
            cand = dict(best, **{key: simple})
            tries += 1
            if still(cand):
                best = cand
    for q in _SMALL:
        if q < best["p"] and tries < budget:
            cand = dict(best, p=q, **{k: [c % q for c in best[k]] for k in ("x", "y", "z", "s", "t") if k in best})
            tries += 1
            if still(cand):
                best = cand
                break
    changed = True
    while changed and tries < budget:
        changed = False
        for key in ("x", "y"):
            for i in range(6):
                for small in (0, 1, 2):
                    if best[key][i] == small or (0 <= best[key][i] < small):
                        continue
                    co = list(best[key])
                    co[i] = small
                    cand = dict(best, **{key: co})
                    tries += 1
                    if still(cand):
                        best = cand
                        changed = True
                        break
    return best, mode


def _field_record(ctx: Ctx, case: dict, mode: str = "full", desc: int | None = None, repeats: bool = True) -> _Field:
    """
    Evaluate and account one field case. The first time a signature shows up in a worker its case is minimised and
    recorded; with ``repeats=False`` later occurrences are only counted (enumerations hit a defect very often).
    """
    f = field_eval(case, mode)
    nt = _field_nontrivial(case)
    want_sample = nt and len(ctx.samples) < ctx.sample_slots
    ctx.case(desc if desc is not None and not want_sample else case, nt, cls=_field_cls(case))
    if f.skipped:
        ctx.count("a:skipped_non_invertible", f.skipped)
    if f.fails:
        seen = ctx.__dict__.setdefault("_c18_minimised", set())
        for sig, v in f.fails.items():
            ctx.count("a:failed %s@%s" % sig)
            if sig not in seen:
                seen.add(sig)
                small, small_mode = _minimise(case, sig)
                hit = field_eval(small, small_mode).fails.get(sig)
                if hit is not None:
                    v = hit
            elif not repeats:
                continue
            ctx.violation(v)
    return f


def _grid_reps(p: int, values: list[int]) -> list[list[int]]:
    vals = sorted({v % p for v in values})
    reps = []
    n = len(vals)
    for idx in range(n ** 6):
        co, k = [], idx
        for _ in range(6):
            co.append(vals[k % n])
            k //= n
        reps.append(co)
    return reps


def _grid_plan(ctx: Ctx) -> list[tuple[int, list[int]]]:
    primes = list(R.field_primes_below(200))
    plan = [(p, [0, 1]) for p in primes]
    if ctx.quick:
        plan += [(p, [0, 1, -1]) for p in (5, 11)]
    else:
        plan += [(p, [0, 1, -1]) for p in primes if p > 2]
        plan += [(5, [0, 1, 2, -1])]
    return plan


def _grid_shard(ctx: Ctx, shard: int, nshards: int) -> None:
    from ipv8.attestation.wallet.primitives.value import FP2Value
    v6, radd, rsub, rmul, rdiv = R.value6, R.add, R.sub, R.mul, R.div
    k = 0
    for gi, (p, values) in enumerate(_grid_plan(ctx)):
        reps = _grid_reps(p, values)
        ok = [co for co in reps if v6(p, co) is not None]
        ctx.count("a:grid_skipped_zero_denominator", (len(reps) - len(ok)) if shard == 0 else 0)
        objs = [FP2Value(p, *co) for co in ok]
        vals = [v6(p, co) for co in ok]
        ntf = [(co[4] - co[5]) % p != 0 for co in ok]
        tag = (0xA << 60) | (gi << 48)
        cls = "a:p<200"
        for i, X in enumerate(objs):
            xv = vals[i]
            for j, Y in enumerate(objs):
                k += 1
                if k % nshards != shard:
                    continue
                yv = vals[j]
                # fast path: the same comparisons as field_eval(mode="binary"); anything odd is re-run there
                try:
                    r = X + Y
                    good = v6(p, (r.a, r.b, r.c, r.aC, r.bC, r.cC)) == radd(p, xv, yv)
                    r = X - Y
                    good = good and v6(p, (r.a, r.b, r.c, r.aC, r.bC, r.cC)) == rsub(p, xv, yv)
                    r = X * Y
                    good = good and v6(p, (r.a, r.b, r.c, r.aC, r.bC, r.cC)) == rmul(p, xv, yv)
                    if yv != (0, 0):
                        r = X // Y
                        good = good and v6(p, (r.a, r.b, r.c, r.aC, r.bC, r.cC)) == rdiv(p, xv, yv)
                    good = good and (X == Y) == (xv == yv)
                except Exception:
                    good = False
                desc = tag | (i << 24) | j
                if good:
                    nt = ntf[i] and ntf[j]
                    if nt and len(ctx.samples) < ctx.sample_slots:
                        ctx.case({"part": "field", "p": p, "x": ok[i], "y": ok[j]}, nt, cls=cls)
                    else:
                        ctx.case(desc, nt, cls=cls)
                else:
                    _field_record(ctx, {"part": "field", "p": p, "x": ok[i], "y": ok[j]}, "binary", desc, repeats=False)
    # every representation of the two smallest fields through the unary operators and equality with a re-representation
    for p in (2, 5):
        reps = _grid_reps(p, list(range(p)))
        for i, x in enumerate(reps):
            if i % nshards != shard or R.value6(p, x) is None:
                continue
            y = reps[(i * 7919 + 13) % len(reps)]
            if R.value6(p, y) is None:
                y = ONE6
            case = {"part": "field", "p": p, "x": x, "y": y, "z": reps[(i * 104729 + 7) % len(reps)],
                    "ks": [-3, -2, -1, 0, 1, 2, 3, p, p * p - 1], "s": [1 + i % (p - 1 or 1), i % p, 0], "t": [i % p, 1]}
            _field_record(ctx, case, "full")


def _draw_coeff(rng: random.Random, p: int) -> int:
    r = rng.random()
    if r < 0.80:
        return rng.randrange(p)
    if r < 0.90:
        return rng.choice((0, 0, 1, 2, p - 1, p - 2))
    if r < 0.95:
        return rng.randrange(p) - p * rng.randrange(1, 3)      # negative
    return rng.randrange(p) + p * rng.randrange(1, 3)          # above the modulus


@lru_cache(maxsize=None)
def _prime_pool(seed: int) -> tuple:
    rng = random.Random(derive(seed, "C18", "primes"))
    return tuple(R.next_field_prime(rng.getrandbits(bits) | (1 << (bits - 1)))
                 for bits in (32, 33, 40, 48, 61, 64, 65, 71, 80, 96, 101, 127, 128))


def _draw_exponents(rng: random.Random, p: int, heavy: bool) -> list[int]:
    ks = [rng.randrange(-9, 10), rng.choice((0, 1, -1, 2, -2))]
    if heavy:
        ks += [rng.getrandbits(rng.choice((16, 64, 256))), -rng.getrandbits(rng.choice((16, 64, 256))), p * p - 1]
    return ks


def _random_field_case(rng: random.Random, seed: int, i: int) -> dict:
    r = rng.random()
    if r < 0.5:
        p = R.P255
    elif r < 0.85:
        p = rng.choice(_prime_pool(seed))
    else:
        p = rng.choice(R.field_primes_below(200))
    case = {"part": "field", "p": p}
    if p == R.P255 and rng.random() < 0.7:
        # the Schwartz-Zippel samples proper: all eighteen coefficients independent and uniform on [0, p)
        for key in ("x", "y", "z"):
            case[key] = [rng.randrange(p) for _ in range(6)]
        case["uniform"] = True
    else:
        for key in ("x", "y", "z"):
            case[key] = [_draw_coeff(rng, p) for _ in range(6)]
        if rng.random() < 0.15:   # denominators that are plain integers: the shape the unit tests use
            case["x"][4] = case["x"][5] = 0
        if rng.random() < 0.1:
            case["y"] = list(case["x"])
    case["ks"] = _draw_exponents(rng, p, i % 8 == 0)
    case["s"] = [_draw_coeff(rng, p) for _ in range(3)]
    case["t"] = [_draw_coeff(rng, p) for _ in range(2)]
    return case


def _bulk_shard(ctx: Ctx, shard: int, nshards: int, n: int) -> None:
    for i in range(n):
        rng = random.Random(derive(ctx.seed, "C18", "field", shard, i))
        _field_record(ctx, _random_field_case(rng, ctx.seed, i), repeats=False)


def _field_strategy(seed: int):
    from hypothesis import strategies as st
    pool = (R.P255,) + _prime_pool(seed) + R.field_primes_below(200)
    big = st.integers(-2 ** 20, 2 ** 256)
    coeff = st.one_of(st.integers(0, 4), big, big.map(lambda v: -v))
    six = st.lists(coeff, min_size=6, max_size=6)
    return st.fixed_dictionaries({
        "p": st.sampled_from(pool), "x": six, "y": six, "z": six,
        "ks": st.lists(st.one_of(st.integers(-20, 20), st.integers(-2 ** 64, 2 ** 64)), max_size=3),
        "s": st.lists(coeff, min_size=3, max_size=3), "t": st.lists(coeff, min_size=2, max_size=2)})


def _hyp_field_shard(ctx: Ctx, shard: int, nshards: int, n: int) -> None:
    def body(d: dict) -> None:
        p = d["p"]
        # general integers are admitted by the constructor (it reduces them); cases keep them in a readable range
        case = {"part": "field", "p": p, **{k: [c % p if abs(c) > 2 ** 20 else c for c in d[k]]
                                            for k in ("x", "y", "z", "s", "t")}, "ks": d["ks"]}
        f = _field_record(ctx, case)
        if f.fails:
            raise next(iter(f.fails.values()))
    hyp_run(ctx, "field", _field_strategy(ctx.seed), body, n, shrink_examples=150)


def _run_field(ctx: Ctx) -> None:
    shard_run(ctx, _grid_shard)
    shard_run(ctx, _bulk_shard, extra=(1200 if ctx.quick else 15_000,))
    shard_run(ctx, _hyp_field_shard, extra=(200 if ctx.quick else 3000,))
    ctx.note("p255", R.P255)
    ctx.note("random_prime_pool", list(_prime_pool(ctx.seed)))


# ======================================================================================================
# seeded environment for (b), (c), (d): keys and proofs become a function of the case seed
# ======================================================================================================

def _safe_prime(rng: random.Random, bits: int) -> int:
    """
    A ``bits``-bit safe prime (what ipv8_rust_tunnels.generate_safe_prime returns), found with the seeded stream.
    """
    while True:
        q = rng.getrandbits(bits - 1) | (1 << (bits - 2)) | 1
        if R.is_prime(q) and R.is_prime(2 * q + 1):
            return 2 * q + 1


class _Seeded:
    """
    Context in which the code under test draws all its randomness from the case seed: ``random`` is seeded, the Rust
    prime generator (not code under test) and ``os.urandom`` as imported by the range-proof modules are replaced by
    seeded streams. Everything is restored on exit.
    """

    def __init__(self, seed: int) -> None:
        self.rng = random.Random(derive(seed, "C18", "env"))
        self.seed = seed
        self.saved: list = []

    def _urandom(self, n: int) -> bytes:
        return self.rng.getrandbits(8 * n).to_bytes(n, "big") if n else b""

    def __enter__(self) -> "_Seeded":
        import types

        from ipv8.attestation.wallet import community
        from ipv8.attestation.wallet.pengbaorange import algorithm, attestation, boudot
        from ipv8.attestation.wallet.primitives import boneh
        self.state = random.getstate()
        random.seed(self.seed)
        for mod, name, repl in ((boneh, "generate_safe_prime", lambda bits: _safe_prime(self.rng, bits)),
                                (boneh, "generate_rsa_prime", lambda bits: _safe_prime(self.rng, bits)),
                                (algorithm, "urandom", self._urandom), (attestation, "urandom", self._urandom),
                                (boudot, "urandom", self._urandom),
                                # the driver only uses os.urandom (to decide when to interleave an honesty check)
                                (community, "os", types.SimpleNamespace(urandom=self._urandom))):
            self.saved.append((mod, name, getattr(mod, name)))
            setattr(mod, name, repl)
        return self

    def __exit__(self, *exc) -> None:
        for mod, name, orig in self.saved:
            setattr(mod, name, orig)
        random.setstate(self.state)


class _CaseTimeout(BaseException):
    """
    Raised by the CPU-time alarm; a BaseException so that no ``except Exception`` in the code under test eats it.
    """


class _CpuLimit:
    """
    Per-case limit on consumed CPU time (ITIMER_VIRTUAL: independent of machine load and of the wall clock). Key
    generation and proof construction contain retry loops that need not terminate on a defective tree; a case that
    exceeds the limit is recorded as inconclusive - never as a violation.
    """

    def __init__(self, seconds: float) -> None:
        self.seconds = seconds

    @staticmethod
    def _fire(signum, frame) -> None:
        raise _CaseTimeout

    def __enter__(self) -> "_CpuLimit":
        self.old = signal.signal(signal.SIGVTALRM, self._fire)
        signal.setitimer(signal.ITIMER_VIRTUAL, self.seconds, 2.0)
        return self

    def __exit__(self, *exc) -> None:
        signal.setitimer(signal.ITIMER_VIRTUAL, 0)
        signal.signal(signal.SIGVTALRM, self.old)


CPU_LIMIT_S = 25.0
MAX_TIMEOUTS_PER_WORKER = 2


def _limited(evaluate, case: dict) -> "_Collector":
    """
    Run one case evaluation under the CPU limit.
    """
    try:
        with _CpuLimit(CPU_LIMIT_S):
            return evaluate(case)
    except _CaseTimeout:
        c = _Collector(case)
        c.inconclusive = f"case exceeded {CPU_LIMIT_S:.0f} s of CPU time (typical: 0.2 - 3 s)"
        return c


def _gave_up(ctx: Ctx, c: "_Collector | None", label: str, case: dict) -> bool:
    """
    Bookkeeping for inconclusive cases; once a worker has hit the limit twice the remaining cases of (b), (c) are
    skipped and counted (a tree on which key generation does not terminate would otherwise cost minutes per case).
    """
    state = ctx.__dict__.setdefault("_c18_timeouts", [0])
    if c is None:
        if state[0] >= MAX_TIMEOUTS_PER_WORKER:
            ctx.count("skipped_after_cpu_limit:" + label)
            return True
        return False
    if c.inconclusive:
        if "CPU time" in c.inconclusive:
            state[0] += 1
        ctx.count("inconclusive:" + label)
        ctx.inconclusive.append(f"{label} seed {case.get('seed')}: {c.inconclusive}")
        return True
    return False


class _Collector:
    def __init__(self, case: dict) -> None:
        self.case = case
        self.fails: dict[tuple, Violation] = {}
        self.counts: dict[str, int] = {}
        self.inconclusive: str | None = None
        self.n = self.near = self.cheats_built = 0
        self.honest_ok = False

    def fail(self, clause: str, site: str, msg: str) -> None:
        if (clause, site) not in self.fails:
            self.fails[(clause, site)] = Violation(clause, site, msg, self.case)

    def count(self, key: str) -> None:
        self.counts[key] = self.counts.get(key, 0) + 1

    def first(self) -> Violation | None:
        return next(iter(self.fails.values()), None)


def _plain(v) -> list:
    return [v.a, v.b, v.c, v.aC, v.bC, v.cC]


def _denotes(v):
    return R.value6(v.mod, _plain(v))


def _key_fields(k, private: bool) -> list:
    out = [k.p, _denotes(k.g), _denotes(k.h)]
    # a key that came back as another kind of object has no private part: reported as "absent", not a harness error
    return out + [getattr(k, "n", "absent"), getattr(k, "t1", "absent")] if private else out


def _check_key_roundtrip(c: _Collector, alg, sk) -> None:
    """
    (d) keys: unserialize(serialize(k)) has the same fields; the stripped public key as well.
    """
    try:
        sk2 = alg.load_secret_key(sk.serialize())
        pk = sk.public_key()
        pk2 = alg.load_public_key(pk.serialize())
    except Exception as e:
        c.fail("D2", "key", f"key round trip raised {e!r}")
        return
    if sk2 is None or _key_fields(sk2, True) != _key_fields(sk, True):
        c.fail("D2", "key", f"private key changes through serialize/unserialize: {_key_fields(sk, True)} -> "
                            f"{None if sk2 is None else _key_fields(sk2, True)}")
    if pk2 is None or _key_fields(pk2, False) != _key_fields(sk, False) or hasattr(pk2, "t1"):
        c.fail("D2", "key", f"public key changes through serialize/unserialize: {_key_fields(sk, False)} -> "
                            f"{None if pk2 is None else _key_fields(pk2, False)}")
    if sk2 is not None and sk2.serialize() != sk.serialize():
        c.fail("D2", "key", "serialize(unserialize(serialize(key))) differs from serialize(key)")


# ======================================================================================================
# (b) exact-match attestations
# ======================================================================================================

_DIGEST = {
    "sha256_4": lambda v: hashlib.sha256(v).digest()[:4],
    "sha256": lambda v: hashlib.sha256(v).digest(),
    "sha512": lambda v: hashlib.sha512(v).digest(),
}


def _profile(hash_mode: str, value: bytes) -> list[int]:
    """
    Bit-pair profile of the value's hash, written from the statement: the hash bits, most significant first, are cut
    into consecutive pairs; slot k counts the pairs whose two bits sum to k. Slot 3 ("undecodable") is always 0.
    """
    d = _DIGEST[hash_mode](value)
    n = len(d) * 4
    x = int.from_bytes(d, "big")
    lo_mask = int("01" * n, 2)
    hi, lo = (x >> 1) & lo_mask, x & lo_mask
    two = bin(hi & lo).count("1")
    one = bin(hi ^ lo).count("1")
    return [n - one - two, one, two, 0]


def _near_rivals(hash_mode: str, value: bytes, want: int = 2, limit: int = 1500) -> list[bytes]:
    """
    Values whose profile is one pair-move away from the true one (the hardest rivals to tell apart).
    """
    target = _profile(hash_mode, value)
    out = []
    for i in range(limit):
        cand = b"rival-%d:" % i + value[:8]
        pr = _profile(hash_mode, cand)
        if sum(abs(x - y) for x, y in zip(pr, target)) == 2:
            out.append(cand)
            if len(out) >= want:
                break
    return out


_EDGES = {
    "lead0": lambda d: d[0] == 0,                   # the digest, read as a number, is shorter than the hash is wide
    "lead0n": lambda d: d[0] < 16,                  # a leading zero nibble
    "trail0": lambda d: d[-1] == 0,
    "lead_ff": lambda d: d[0] == 0xFF,
}


def _edge_value(hash_mode: str, edge: str, base: bytes) -> bytes:
    """
    An ordinary attribute value (the base value with a counter appended) whose digest has a boundary shape; found by
    counting, so a pure function of its arguments.
    """
    pred = _EDGES[edge]
    for i in range(20000):
        cand = base[:16] + b"#%d" % i
        if pred(_DIGEST[hash_mode](cand)):
            return cand
    raise AssertionError("no value with digest shape " + edge)


def exact_eval(case: dict) -> _Collector:
    from ipv8.attestation.wallet.bonehexact.algorithm import BonehExactAlgorithm
    c = _Collector(case)
    hash_mode, value = case["hash"], case["value"]
    if case.get("edge"):
        value = _edge_value(hash_mode, case["edge"], value)
    fmt = {"algorithm": "bonehexact", "key_size": case["key_size"], "hash": hash_mode}
    profile = _profile(hash_mode, value)
    n = sum(profile)
    c.n = n
    with _Seeded(case["seed"]):
        alg = BonehExactAlgorithm("fmt", {"fmt": fmt})
        try:
            sk = alg.generate_secret_key()
            pk = sk.public_key()
        except Exception as e:
            c.fail("B0", "generate_keypair", f"key generation raised {e!r}")
            return c
        _check_key_roundtrip(c, alg, sk)
        # prover side / attester side
        try:
            obj = alg.attest_function(pk, value)
            blob = obj.serialize()
            att = alg.get_attestation_class().unserialize(blob, "fmt")
            att_priv = alg.get_attestation_class().unserialize_private(sk, blob, "fmt")
        except Exception as e:
            c.fail("B0", "attest", f"attesting {value!r} ({hash_mode}) raised {e!r}")
            return c
        # (d) attestation round trip
        flat = lambda a: [a.PK.p, _denotes(a.PK.g), _denotes(a.PK.h)] + [
            [_denotes(bp.a), _denotes(bp.b), _denotes(bp.complement)] for bp in a.bitpairs]
        if flat(att) != flat(obj) or att.serialize() != blob or flat(att_priv) != flat(obj):
            c.fail("D3", "BonehAttestation", "bit-pair attestation changes through serialize/unserialize")
        try:
            challenges = alg.create_challenges(att.PK, att)
        except Exception as e:
            c.fail("B0", "create_challenges", f"raised {e!r}")
            return c
        if len(challenges) != n or len(att.bitpairs) != n:
            c.fail("B1", "create_challenges", f"{hash_mode}: the hash has {n} bit pairs but there are "
                                              f"{len(att.bitpairs)} attested pairs and {len(challenges)} challenges")
            return c
        order = list(range(n))
        random.Random(case["order_seed"]).shuffle(order)
        prefix = case["prefix"] * n // 256
        agg = alg.create_certainty_aggregate(att)
        try:
            for done, i in enumerate(order):
                if done == prefix:
                    snap = [agg.get(k, 0) for k in range(4)]
                    if any(snap[k] > profile[k] for k in range(3)) or snap[3] != 0 or sum(snap) != prefix:
                        c.fail("B2", "process_challenge_response",
                               f"after {prefix} of {n} honest answers the aggregate is {snap}; the profile of the "
                               f"value's hash is {profile}")
                resp = alg.create_challenge_response(sk, att_priv, challenges[i])
                alg.process_challenge_response(agg, challenges[i], resp)
        except Exception as e:
            c.fail("B0", "challenge_response", f"honest challenge/response raised {e!r}")
            return c
        final = [agg.get(k, 0) for k in range(4)]
        if final != profile:
            c.fail("B3", "process_challenge_response", f"{hash_mode} value {value!r}: after all {n} honest answers the "
                                                       f"aggregate is {final}, the hash's bit-pair profile is {profile}")
        else:
            try:
                got = alg.certainty(value, agg)
                if abs(got - (1 - 2.0 ** -n)) >= 1e-12:
                    c.fail("B4", "certainty", f"{hash_mode}: the true value scores {got!r} after all {n} answers, "
                                              f"expected 1 - 2^-{n}")
                near = _near_rivals(hash_mode, value)
                c.near = len(near)
                for rival in list(case.get("rivals", [])) + near:
                    rp = _profile(hash_mode, rival)
                    if rp == profile:
                        c.count("b:rival_same_profile")
                        continue
                    got = alg.certainty(rival, agg)
                    if got != 0:
                        c.fail("B5", "certainty", f"{hash_mode}: rival value {rival!r} with profile {rp} scores {got!r} "
                                                  f"against the complete aggregate {final} of {value!r}")
            except Exception as e:
                c.fail("B0", "certainty", f"certainty raised {e!r}")
        # honesty checks of the protocol driver: a known plaintext must come back
        try:
            for v in (0, 1, 2):
                ch = alg.create_honesty_challenge(pk, v)
                resp = alg.create_challenge_response(sk, att_priv, ch)
                verdicts = [bool(alg.process_honesty_challenge(w, resp)) for w in (0, 1, 2)]
                if verdicts != [w == v for w in (0, 1, 2)]:
                    c.fail("B6", "honesty_challenge", f"honesty challenge for {v}: honest response {resp!r} is judged "
                                                      f"{verdicts} against 0, 1, 2")
        except Exception as e:
            c.fail("B0", "honesty_challenge", f"raised {e!r}")
    return c


def _exact_record(ctx: Ctx, case: dict) -> _Collector | None:
    if _gave_up(ctx, None, "exact", case):
        return None
    c = _limited(exact_eval, case)
    if _gave_up(ctx, c, "exact", case):
        return None
    desc = {k: case.get(k) for k in ("part", "hash", "key_size", "seed", "value", "edge", "order_seed", "prefix")}
    ctx.case(desc, c.n >= 16 and c.near > 0 and not c.fails,
             cls="b:" + case["hash"] + "/%d" % case["key_size"] + ("/" + case["edge"] if case.get("edge") else ""))
    for k, v in c.counts.items():
        ctx.count(k, v)
    for v in c.fails.values():
        ctx.violation(v)
    return c


def _exact_strategy(quick: bool):
    from hypothesis import strategies as st
    value = st.one_of(st.binary(max_size=40), st.binary(min_size=200, max_size=3000),
                      st.text(max_size=30).map(lambda t: t.encode("utf-8")),
                      st.sampled_from([b"", b"\x00", b"\xff" * 64, b"AttributeValue", b"2168897456"]))
    return st.fixed_dictionaries({
        "part": st.just("exact"),
        "seed": st.integers(0, 2 ** 32 - 1),
        "key_size": st.just(32) if quick else st.sampled_from([32, 32, 32, 32, 32, 64]),
        "hash": st.sampled_from(["sha256_4"] * 6 + ["sha256", "sha512"]),
        "value": value,
        "edge": st.sampled_from([None, None, None, "lead0", "lead0", "lead0n", "trail0", "lead_ff"]),
        "order_seed": st.integers(0, 2 ** 16),
        "prefix": st.integers(0, 256),
        "rivals": st.lists(value, max_size=2),
    })


def keys_eval(case: dict) -> _Collector:
    """
    Fresh keys per run, many runs in one process: several distinct key pairs are used one after the other, each loaded
    from its serialised form, used for encode / decode and dropped again (so that a later key object may live where an
    earlier one lived). The 2-DNF encryption must decode what it encoded under every one of them.
    """
    import gc

    from ipv8.attestation.wallet.primitives.boneh import decode, encode, generate_keypair
    from ipv8.attestation.wallet.primitives.structs import BonehPrivateKey
    c = _Collector(case)
    with _Seeded(case["seed"]):
        blobs = []
        for _ in range(case.get("keys", 3)):
            _, sk = generate_keypair(32)
            blobs.append(sk.serialize())
        del sk
        gc.collect()
        for r in range(case.get("rounds", 18)):
            sk = BonehPrivateKey.unserialize(blobs[(r * 7 + r // 3) % len(blobs)])
            pk = sk.public_key()
            for m in (0, 1, 2, 1):
                try:
                    got = decode(sk, [0, 1, 2], encode(pk, m))
                except Exception as e:  # noqa: BLE001
                    c.fail("B1", "decode:fresh_key", f"use {r} of a key loaded from its serialised form ({len(blobs)} distinct "
                                                     f"keys used and dropped in turn): decode raised {type(e).__name__}: {e}")
                    return c
                if got != m:
                    c.fail("B1", "decode:fresh_key", f"use {r} of a key loaded from its serialised form ({len(blobs)} distinct "
                                                     f"keys used and dropped in turn): {m} encoded under its public key decodes "
                                                     f"to {got}")
                    return c
            del sk, pk
            gc.collect()
    c.n = 16
    return c


def _hyp_exact_shard(ctx: Ctx, shard: int, nshards: int, n: int) -> None:
    kc = {"part": "keys", "seed": ctx.seed * 100 + shard, "keys": 2 + shard % 3, "rounds": 18}
    if not _gave_up(ctx, None, "exact", kc):
        k = _limited(keys_eval, kc)
        if not _gave_up(ctx, k, "exact", kc):
            ctx.case(kc, not k.fails, cls="b:fresh_keys")
            for v in k.fails.values():
                ctx.violation(v)

    def body(case: dict) -> None:
        c = _exact_record(ctx, case)
        if c is not None and c.fails:
            raise c.first()
    hyp_run(ctx, "exact", _exact_strategy(ctx.quick), body, n, shrink_examples=12)


# ======================================================================================================
# (c) range proofs
# ======================================================================================================

def _cheating_proof(pk, value: int, a: int, b: int, bitspace: int, variant: str, rng: random.Random):
    """
    A dishonest prover for ``value`` outside [a, b]. It follows the honest construction (create_attest_pair) line by
    line; the only thing it cannot do honestly is to split w^2 (value-a+1)(b-value+1) <= 0 into m1 + m2 + m4^2 with
    positive parts, so it picks parts of mixed sign such that one of the two responses stays positive for every
    admissible challenge: variant "x" answers x < 0 < y, variant "y" answers y < 0 < x. All commitments and the three
    sub-proofs are consistent, so only the verifier's positivity conditions stand between this proof and acceptance.
    """
    from ipv8.attestation.wallet.pengbaorange.boudot import EL, SQR
    from ipv8.attestation.wallet.pengbaorange.structs import (PengBaoAttestation, PengBaoCommitment,
                                                              PengBaoCommitmentPrivate, PengBaoPublicData)
    assert not a <= value <= b
    g, h = pk.g, pk.h
    bits = max(bitspace, 16)
    r, ra = rng.getrandbits(bits) + 1, rng.getrandbits(bits) + 1
    raa = (rng.getrandbits(bits // 2) + 1) ** 2
    w = rng.getrandbits(bits) + 2
    w2 = w * w
    c = g.intpow(value) * h.intpow(r)
    c1 = c // g.intpow(a - 1)
    c2 = g.intpow(b + 1) // c
    ca = c1.intpow(b - value + 1) * h.intpow(ra)
    caa = ca.intpow(w2) * h.intpow(raa)
    mst = w2 * (value - a + 1) * (b - value + 1)
    assert mst <= 0
    m4 = 1
    m3 = m4 * m4
    k = m3 - mst                      # m1 + m2 = -k, k > 0
    m1, m2 = (-2 * k, k) if variant == "x" else (k, -2 * k)
    assert m1 + m2 + m3 == mst
    rst = w2 * ((b - value + 1) * r + ra) + raa
    r1, r2 = rng.getrandbits(4 * bits) + 1, rng.getrandbits(4 * bits) + 1
    r3 = rst - r1 - r2
    ca1 = g.intpow(m1) * h.intpow(r1)
    ca2 = g.intpow(m2) * h.intpow(r2)
    ca3 = caa // (ca1 * ca2)
    el = EL.create(b - value + 1, -r, ra, g, h, c1, h, b, bitspace)
    sqr1 = SQR.create(w, raa, ca, h, b, bitspace)
    sqr2 = SQR.create(m4, r3, g, h, b, bitspace)
    public = PengBaoPublicData(pk, bitspace, PengBaoCommitment(c, c1, c2, ca, ca1, ca2, ca3, caa), el, sqr1, sqr2)
    return PengBaoAttestation(public, PengBaoCommitmentPrivate(m1, m2, m3, r1, r2, r3))


def _range_alg(key_size: int, a: int, b: int):
    from ipv8.attestation.wallet.pengbaorange.algorithm import PengBaoRangeAlgorithm
    return PengBaoRangeAlgorithm("rng", {"rng": {"algorithm": "pengbaorange", "key_size": key_size, "min": a, "max": b}})


def _range_verify(alg, public_blob: bytes, responder) -> tuple[float, float, list]:
    """
    The verifier's side exactly as AttestationCommunity drives it: reload the public attestation, challenge, feed the
    responses into the aggregate, ask for the certainty of "in range" and of "not in range".
    """
    pub = alg.get_attestation_class().unserialize(public_blob, "rng")
    agg = alg.create_certainty_aggregate(pub)
    seen = []
    for ch in alg.create_challenges(pub.PK, pub):
        resp = responder(ch)
        seen.append((ch, resp))
        alg.process_challenge_response(agg, ch, resp)
    return alg.certainty(b"\x01", agg), alg.certainty(b"\x00", agg), seen


def _int_to_value(v: int) -> bytes:
    return v.to_bytes(max(1, (v.bit_length() + 7) // 8), "big")


def range_eval(case: dict) -> _Collector:
    from ipv8.attestation.wallet.pengbaorange.attestation import create_attest_pair
    from ipv8.attestation.wallet.primitives.structs import pack_pair, unpack_pair
    c = _Collector(case)
    a, b, value, ks = case["a"], case["b"], case["value"], case["key_size"]
    assert 0 <= a <= value <= b and b >= 1
    with _Seeded(case["seed"]) as env:
        alg = _range_alg(ks, a, b)
        try:
            sk = alg.generate_secret_key()
            pk = sk.public_key()
        except Exception as e:
            c.fail("B0", "generate_keypair", f"key generation raised {e!r}")
            return c
        # ---- honest prover, honest verifier ---------------------------------------------------------------
        try:
            blob = alg.attest(pk, _int_to_value(value))
            priv = alg.get_attestation_class().unserialize_private(sk, blob, "rng")
            public_blob = priv.serialize()
            honest = lambda ch: alg.create_challenge_response(sk, priv, ch)
            yes, no, seen = _range_verify(alg, public_blob, honest)
        except Exception as e:
            c.fail("R1", "honest", f"honest proof of {value} in [{a}, {b}] raised {e!r}")
            return c
        if yes != 1.0 or no != 0.0:
            c.fail("R1", "honest", f"honest proof of {value} in [{a}, {b}] is not accepted: certainty(in range) = {yes}, "
                                   f"certainty(not in range) = {no}")
            return c
        c.honest_ok = True
        # ---- the end points of what the verifier's own generator can draw -----------------------------------
        # create_challenges draws s and t as (urandom(key_size/8) mod (g.mod - 1)), re-drawn while below
        # LARGE_INTEGER: every pair from [LARGE_INTEGER, top] is a challenge an honest verifier may send
        try:
            from ipv8.attestation.wallet.pengbaorange.algorithm import LARGE_INTEGER
            pub0 = alg.get_attestation_class().unserialize(public_blob, "rng")
            top = min(2 ** (8 * (ks // 8)), pub0.PK.g.mod - 1) - 1
            L, r = LARGE_INTEGER, LARGE_INTEGER + 1 + env.rng.randrange(max(1, top - LARGE_INTEGER))
            pairs = [(L, L), (L, r), (r, L), (top, top), (L + 1, top - 1), (top, L), (L, top)] if top > L + 1 else []
            for s, t in pairs:
                ch = pack_pair(s, t)
                agg = alg.create_certainty_aggregate(pub0)
                alg.process_challenge_response(agg, ch, honest(ch))
                yes, no = alg.certainty(b"\x01", agg), alg.certainty(b"\x00", agg)
                if yes != 1.0 or no != 0.0:
                    c.fail("R1", "honest:edge_challenge",
                           f"honest proof of {value} in [{a}, {b}] is not accepted for the challenge (s, t) = ({s}, {t}), "
                           f"which the verifier's generator can draw from [{LARGE_INTEGER}, {top}]: certainty(in range) "
                           f"= {yes}, certainty(not in range) = {no}")
                    return c
                c.count("c:edge_challenge")
        except Exception as e:
            c.fail("R1", "honest:edge_challenge", f"honest proof of {value} in [{a}, {b}] raised {e!r} for an end-point challenge")
            return c

        def rejected(kind: str, clause: str, what: str, fn) -> None:
            try:
                yes, _, _ = fn()
            except Exception:
                c.count("c:rejected_by_exception:" + kind)
                return
            if yes != 0.0:
                c.fail(clause, kind, f"{what} is accepted (certainty {yes})")

        # ---- the same proof presented for ranges that do not contain the value ------------------------------
        for a2, b2 in case.get("wrong_ranges", []):
            if a2 <= value <= b2 or not 0 <= a2 <= b2:
                continue
            alg2 = _range_alg(ks, a2, b2)
            rejected("other_range", "R2", f"a proof of {value} in [{a}, {b}] presented for [{a2}, {b2}]",
                     lambda: _range_verify(alg2, public_blob, honest))

            def unanswered2(alg2=alg2):
                pub = alg2.get_attestation_class().unserialize(public_blob, "rng")
                return alg2.certainty(b"\x01", alg2.create_certainty_aggregate(pub)), None, None
            rejected("no_answers", "R2", f"a proof of {value} in [{a}, {b}] presented for [{a2}, {b2}] with NO challenge "
                                         f"answered", unanswered2)
        # ---- altered responses -----------------------------------------------------------------------------
        delta = case.get("delta", 1) or 1
        for pos in range(4):
            def altered(ch: bytes, pos: int = pos) -> bytes:
                x, y, rem = unpack_pair(honest(ch))
                u, v, _ = unpack_pair(rem)
                nums = [x, y, u, v]
                nums[pos] = abs(nums[pos] + delta)
                return pack_pair(nums[0], nums[1]) + pack_pair(nums[2], nums[3])
            rejected("altered_response", "R4", f"a response with component {'xyuv'[pos]} shifted by {delta}",
                     lambda: _range_verify(alg, public_blob, altered))
        # ---- a proof for a different in-range value whose commitment is swapped in ---------------------------
        try:
            other = create_attest_pair(pk, case.get("value2", a), a, b, ks)
            if case.get("value2", a) != value:
                mixed = alg.get_attestation_class().unserialize(public_blob, "rng")
                mixed.publicdata.commitment.c = other.publicdata.commitment.c
                rejected("altered_commitment", "R5", "a proof whose value commitment c was exchanged",
                         lambda: _range_verify(alg, mixed.serialize(), honest))
            # (d) range attestation round trip, private part included
            again = alg.get_attestation_class().unserialize_private(sk, other.serialize_private(pk), "rng")
            fields = lambda p: [p.m1, p.m2, p.m3, p.r1, p.r2, p.r3]
            com = lambda q: [_denotes(getattr(q.commitment, n)) for n in ("c", "c1", "c2", "ca", "ca1", "ca2", "ca3", "caa")]
            pd, qd = other.publicdata, again.publicdata
            if fields(again.privatedata) != fields(other.privatedata):
                c.fail("D4", "PengBaoCommitmentPrivate", f"private part changes through encode/decode: "
                                                         f"{fields(other.privatedata)} -> {fields(again.privatedata)}")
            if com(pd) != com(qd) or pd.bitspace != qd.bitspace or not (pd.el == qd.el) or not (pd.sqr1 == qd.sqr1) \
                    or not (pd.sqr2 == qd.sqr2) or _key_fields(pd.PK, False) != _key_fields(qd.PK, False):
                c.fail("D4", "PengBaoPublicData", "public part changes through serialize/unserialize")
            if again.serialize() != other.serialize():
                c.fail("D4", "PengBaoPublicData", "serialize(unserialize(serialize(x))) differs from serialize(x)")
        except Exception as e:
            c.fail("D4", "PengBaoAttestation", f"building / reloading a second honest proof raised {e!r}")
        # ---- cheating prover for values outside the range --------------------------------------------------
        for vout in case.get("outside", []):
            if a <= vout <= b or vout < 0:
                continue
            for variant in ("x", "y"):
                try:
                    cheat = _cheating_proof(pk, vout, a, b, ks, variant, env.rng)
                    cheat_blob = cheat.serialize()
                except Exception:
                    c.count("c:cheat_construction_error")
                    continue
                c.cheats_built += 1

                def answer(ch: bytes, cheat=cheat) -> bytes:
                    s, t = unpack_pair(ch)[0:2]
                    x, y, u, v = cheat.privatedata.generate_response(s, t)
                    # the wire format has no sign: a cheater can only send magnitudes
                    return pack_pair(abs(x), abs(y)) + pack_pair(abs(u), abs(v))
                rejected("cheating_prover", "R3", f"a proof built for {vout} outside [{a}, {b}] (variant {variant}, "
                                                  f"magnitudes sent)", lambda: _range_verify(alg, cheat_blob, answer))

                # the empty subset of challenges: nothing answered yet (also what the verifier holds while it waits)
                def unanswered(cheat_blob=cheat_blob):
                    pub = alg.get_attestation_class().unserialize(cheat_blob, "rng")
                    return alg.certainty(b"\x01", alg.create_certainty_aggregate(pub)), None, None
                rejected("no_answers", "R3", f"a proof built for {vout} outside [{a}, {b}] with NO challenge answered",
                         unanswered)
                # straight at the check, where signed responses can be handed in
                def direct(cheat=cheat, cheat_blob=cheat_blob):
                    pub = alg.get_attestation_class().unserialize(cheat_blob, "rng")
                    s, t = unpack_pair(alg.create_challenges(pub.PK, pub)[0])[0:2]
                    x, y, u, v = cheat.privatedata.generate_response(s, t)
                    ok = pub.publicdata.check(a, b, s, t, x, y, u, v)
                    return (1.0 if ok else 0.0), None, None
                rejected("cheating_prover", "R3", f"a proof built for {vout} outside [{a}, {b}] (variant {variant}, "
                                                  f"signed responses handed to PengBaoPublicData.check)", direct)
    return c


def _range_record(ctx: Ctx, case: dict) -> _Collector | None:
    if _gave_up(ctx, None, "range", case):
        return None
    c = _limited(range_eval, case)
    if _gave_up(ctx, c, "range", case):
        return None
    width = case["b"] - case["a"]
    cls = "c:single" if width == 0 else "c:boundary" if case["value"] in (case["a"], case["b"]) else "c:inside"
    ctx.case(case, c.honest_ok and c.cheats_built > 0 and not c.fails, cls=cls)
    for k, v in c.counts.items():
        ctx.count(k, v)
    for v in c.fails.values():
        ctx.violation(v)
    return c


def _range_strategy():
    from hypothesis import strategies as st

    @st.composite
    def build(draw):
        a = draw(st.one_of(st.integers(0, 300), st.integers(0, 2 ** 16 - 1)))
        width = draw(st.one_of(st.integers(0, 3), st.integers(0, 300), st.integers(0, 2 ** 16 - 1)))
        # b >= 1: Boudot's sub-proofs take the upper bound b as a size parameter (2^(l+t) b - 1 must be positive)
        b = max(1, min(a + width, 2 ** 16 - 1))
        value = draw(st.one_of(st.sampled_from([a, b]), st.integers(a, b)))
        value2 = draw(st.integers(a, b))
        # ranges that exclude the value: shifted lower / upper bound, disjoint ranges
        wrong = []
        if value < b:
            wrong.append([value + 1, b])
        if value > a:
            wrong.append([a, value - 1])
        wrong.append([b + 1, b + 1 + draw(st.integers(0, 50))])
        outside = [b + 1, b + 1 + draw(st.integers(1, 2 ** 16))]
        if a > 0:
            outside += [a - 1, draw(st.integers(0, a - 1))]
        return {"part": "range", "seed": draw(st.integers(0, 2 ** 32 - 1)), "key_size": 32, "a": a, "b": b,
                "value": value, "value2": value2, "wrong_ranges": wrong, "outside": outside,
                "delta": draw(st.one_of(st.sampled_from([1, -1]), st.integers(-2 ** 20, 2 ** 20)))}
    return build()


def _hyp_range_shard(ctx: Ctx, shard: int, nshards: int, n: int) -> None:
    def body(case: dict) -> None:
        c = _range_record(ctx, case)
        if c is not None and c.fails:
            raise c.first()
    hyp_run(ctx, "range", _range_strategy(), body, n, shrink_examples=10)


# ======================================================================================================
# (d) integer / proof-structure serialisation
# ======================================================================================================

def ser_eval(case: dict) -> _Collector:
    from ipv8.attestation.wallet.pengbaorange.boudot import EL, _sipack, _siunpack
    from ipv8.attestation.wallet.primitives.structs import ipack, iunpack, pack_pair, unpack_pair
    c = _Collector(case)
    tail = case.get("tail", b"")
    for n in case["nats"]:
        try:
            got = iunpack(ipack(n) + tail)
        except Exception as e:
            c.fail("D1", "ipack", f"iunpack(ipack({n})) raised {e!r}")
            continue
        if got != (n, tail):
            c.fail("D1", "ipack", f"iunpack(ipack({n}) + {tail!r}) gives {got}")
    if len(case["nats"]) >= 2:
        p, q = case["nats"][:2]
        try:
            got = unpack_pair(pack_pair(p, q) + tail)
            if got != (p, q, tail):
                c.fail("D1", "pack_pair", f"unpack_pair(pack_pair({p}, {q}) + {tail!r}) gives {got}")
        except Exception as e:
            c.fail("D1", "pack_pair", f"raised {e!r}")
    ints = case["ints"]
    try:
        nums, rem = _siunpack(_sipack(*ints) + tail, len(ints))
        nums = list(nums)
        if nums != ints or rem != tail:
            c.fail("D1", "sipack", f"_siunpack(_sipack{tuple(ints)} + {tail!r}) gives {nums}, {rem!r}")
    except Exception as e:
        c.fail("D1", "sipack", f"signed integer pack of {ints} raised {e!r}")
    if len(ints) >= 4:
        try:
            el = EL(*ints[:4])
            el2, rem = EL.unserialize(el.serialize() + tail)
            if [el2.c, el2.D, el2.D1, el2.D2] != ints[:4] or rem != tail or not (el == el2):
                c.fail("D1", "EL", f"EL{tuple(ints[:4])} reloads as EL({el2.c}, {el2.D}, {el2.D1}, {el2.D2}), rest {rem!r}")
        except Exception as e:
            c.fail("D1", "EL", f"EL{tuple(ints[:4])} round trip raised {e!r}")
    return c


def _ser_strategy():
    from hypothesis import strategies as st
    nat = st.one_of(st.integers(0, 300), st.integers(0, 2 ** 64), st.integers(0, 2 ** 600),
                    st.integers(0, 24).map(lambda k: 256 ** k), st.integers(1, 24).map(lambda k: 256 ** k - 1),
                    st.integers(2 ** 2039, 2 ** 2050))
    return st.fixed_dictionaries({
        "part": st.just("ser"), "nats": st.lists(nat, min_size=1, max_size=4),
        "ints": st.lists(st.one_of(nat, nat.map(lambda v: -v)), min_size=1, max_size=8),
        "tail": st.binary(max_size=6)})


def _hyp_ser_shard(ctx: Ctx, shard: int, nshards: int, n: int) -> None:
    def body(case: dict) -> None:
        c = ser_eval(case)
        ctx.case(case, any(v < 0 for v in case["ints"]) and max(case["nats"]) > 255, cls="d:integers")
        for v in c.fails.values():
            ctx.violation(v)
        if c.fails:
            raise c.first()
    hyp_run(ctx, "ser", _ser_strategy(), body, n, shrink_examples=200)


# ======================================================================================================
# (b') the protocol driver end to end: attester -> subject -> verifier over AttestationCommunity
# ======================================================================================================

_E2E_FORMATS = {   # shipped identity formats (ipv8/attestation/default_identity_formats.py)
    "id_metadata": "sha256_4", "id_metadata_big": "sha256", "id_metadata_range_18plus": None,
}
_PUMP_LIMIT = 200_000


def e2e_eval(case: dict) -> _Collector:
    """
    Three AttestationCommunity nodes on the repository's in-memory endpoints: the subject has ``value`` attested by
    the attester, the verifier then runs the whole challenge/response protocol (honesty checks included) against the
    subject and receives the certainties of the true value and of rivals. Progress is measured in event-loop turns,
    not in seconds; a run that does not finish within the turn limit is inconclusive, never a violation.
    """
    import asyncio
    c = _Collector(case)
    fmt, value, rivals = case["format"], case["value"], list(case.get("rivals", []))
    hash_mode = _E2E_FORMATS[fmt]

    async def scenario() -> None:
        from ipv8.attestation.wallet.community import AttestationCommunity, AttestationSettings
        from ipv8.test.mocking import endpoint as mock_endpoint
        from ipv8.test.mocking.ipv8 import MockIPv8
        from ipv8.util import succeed
        nodes = [MockIPv8("curve25519", AttestationCommunity, settings=AttestationSettings(working_directory=":memory:"))
                 for _ in range(3)]
        attester, subject, verifier = nodes
        try:
            for n in nodes:
                for m in nodes:
                    if n is not m:
                        n.network.add_verified_peer(m.my_peer)
            state: dict = {}
            # network fault: challenges / challenge responses (message ids 3 and 4) duplicated in transit. "dup" is
            # None, "all", or a bit mask over the running number (mod 32) of such datagrams
            dup = case.get("dup")
            counter = {"n": 0, "dups": 0}

            def duplicating(ep):
                orig = ep.send

                def send(address, packet):
                    orig(address, packet)
                    if dup and len(packet) > 22 and packet[22] in (3, 4):
                        k = counter["n"]
                        counter["n"] += 1
                        if dup == "all" or (int(dup) >> (k % 32)) & 1:
                            counter["dups"] += 1
                            orig(address, packet)
                ep.send = send
            if dup:
                duplicating(subject.endpoint)
                duplicating(verifier.endpoint)
            # network fault: challenge responses (message id 4) overtake each other. "swap" is a bit mask over their
            # running number: a marked response waits until the next one has left (or 20 ms at most)
            swap = case.get("swap")
            if swap:
                held: list = []
                orig_send = subject.endpoint.send

                def release() -> None:
                    while held:
                        orig_send(*held.pop(0))

                def swapping(address, packet):
                    if len(packet) > 22 and packet[22] == 4:
                        k = counter["n"]
                        counter["n"] += 1
                        if (int(swap) >> (k % 32)) & 1 and not held:
                            held.append((address, packet))
                            counter["dups"] += 1
                            asyncio.get_event_loop().call_later(0.02, release)
                            return
                        orig_send(address, packet)
                        release()
                        return
                    orig_send(address, packet)
                subject.endpoint.send = swapping

            async def pump(cond) -> bool:
                for _ in range(_PUMP_LIMIT):
                    if cond():
                        return True
                    await asyncio.sleep(0)
                return cond()

            attester.overlay.set_attestation_request_callback(lambda peer, name, meta: succeed(value))
            pre = case.get("pre")
            if pre:
                # the same attester and subject have used ANOTHER format of the same algorithm before (the verifier has
                # not): whatever a node keeps per algorithm must not leak from one format into the next
                sk_pre = subject.overlay.get_id_algorithm(pre).generate_secret_key()
                subject.overlay.request_attestation(attester.my_peer, "earlier", sk_pre, metadata={"id_format": pre})
                if not await pump(lambda: len(subject.overlay.database.get_all()) > 0):
                    c.inconclusive = "the earlier attestation did not arrive at the subject within the turn limit"
                    return
                n_before = len(subject.overlay.database.get_all())
            else:
                n_before = 0
            sk = subject.overlay.get_id_algorithm(fmt).generate_secret_key()
            if case.get("twin"):
                # two requests to the same attester are outstanding at once (each with its own fresh key); the attester's
                # user approves the second one first, so the answers come back in the opposite order
                futs: dict = {}
                attester.overlay.set_attestation_request_callback(
                    lambda peer, name, meta: futs.setdefault(name, asyncio.get_event_loop().create_future()))
                attester.overlay.set_attestation_request_complete_callback(
                    lambda peer, name, h, f, from_peer=None: state.setdefault("hash:" + name, h))
                sk2 = subject.overlay.get_id_algorithm(fmt).generate_secret_key()
                subject.overlay.request_attestation(attester.my_peer, "attribute", sk, metadata={"id_format": fmt})
                subject.overlay.request_attestation(attester.my_peer, "other", sk2, metadata={"id_format": fmt})
                if not await pump(lambda: len(futs) == 2):
                    c.inconclusive = "the two requests did not reach the attester within the turn limit"
                    return
                futs["other"].set_result(value if not hash_mode else (rivals[0] if rivals else b"other value"))
                await pump(lambda: len(subject.overlay.database.get_all()) > n_before)
                futs["attribute"].set_result(value)
                if not await pump(lambda: len(subject.overlay.database.get_all()) > n_before + 1):
                    c.fail("B7", "request_attestation:two_outstanding",
                           f"two requests were outstanding and answered in the opposite order: "
                           f"{len(subject.overlay.database.get_all()) - n_before} of 2 attestations reached the subject's wallet")
                    return
                if "hash:attribute" in state:
                    state["hash"] = state["hash:attribute"]
            else:
                attester.overlay.set_attestation_request_complete_callback(
                    lambda peer, name, h, f, from_peer=None: state.setdefault("hash", h))
                subject.overlay.request_attestation(attester.my_peer, "attribute", sk, metadata={"id_format": fmt})
                if not await pump(lambda: len(subject.overlay.database.get_all()) > n_before):
                    c.inconclusive = "attestation did not arrive at the subject within the turn limit"
                    return
            if "hash" not in state or not subject.overlay.database.get_attestation_by_hash(state["hash"]):
                c.fail("B7", "request_attestation", "the attestation stored by the subject does not have the hash the "
                                                    "attester reported")
                return
            asked = [value, *rivals] if hash_mode else [b"\x01", b"\x00"]
            verifier.overlay.verify_attestation_values(
                subject.my_peer.address, state["hash"], asked,
                lambda h, certainties: state.setdefault("result", (h, list(certainties))), fmt)
            if not await pump(lambda: "result" in state):
                c.inconclusive = "verification did not complete within the turn limit"
                return
            rhash, got = state["result"]
            if rhash != state["hash"] or len(got) != len(asked):
                c.fail("B7", "verify_attestation_values", f"callback for another attestation / wrong arity: {got}")
            elif hash_mode:
                profile = _profile(hash_mode, value)
                n = sum(profile)
                if abs(got[0] - (1 - 2.0 ** -n)) >= 1e-12:
                    c.fail("B7", "verify_attestation_values", f"{fmt}: the protocol run scores the true value {value!r} "
                                                              f"at {got[0]!r}, expected 1 - 2^-{n}")
                for rival, score in zip(rivals, got[1:]):
                    if _profile(hash_mode, rival) != profile and score != 0:
                        c.fail("B7", "verify_attestation_values", f"{fmt}: rival {rival!r} scores {score!r}")
            elif got != [1.0, 0.0]:
                c.fail("B7", "verify_attestation_values", f"{fmt}: honest in-range value {value!r} gives certainties "
                                                          f"{got} for (in range, not in range)")
        finally:
            for n in nodes:
                try:
                    await n.stop()
                except Exception:
                    pass
                for adr in (n.endpoint.lan_address, n.endpoint.wan_address):
                    mock_endpoint.internet.pop(adr, None)

    with _Seeded(case["seed"]):
        loop = asyncio.new_event_loop()
        try:
            loop.run_until_complete(scenario())
        except _CaseTimeout:
            c.inconclusive = f"case exceeded {CPU_LIMIT_S:.0f} s of CPU time (typical: 0.2 - 3 s)"
        except Exception as e:
            c.fail("B7", "AttestationCommunity", f"honest protocol run raised {e!r}")
        finally:
            loop.close()
    return c


def _e2e_strategy(quick: bool, dup_mode: str = "none"):
    from hypothesis import strategies as st
    dup = {"none": st.none(), "all": st.just("all"), "mask": st.integers(1, 2 ** 32 - 1),
           "range": st.none(), "range-dup": st.just("all"), "pre": st.none(), "swap": st.none(), "twin": st.none()}[dup_mode]
    value = st.one_of(st.binary(max_size=40), st.text(max_size=20).map(lambda t: t.encode("utf-8")))
    exact = st.fixed_dictionaries({
        "part": st.just("e2e"), "seed": st.integers(0, 2 ** 32 - 1),
        "format": st.just("id_metadata") if quick else st.sampled_from(["id_metadata"] * 5 + ["id_metadata_big"]),
        "value": value, "rivals": st.lists(value, min_size=1, max_size=3),
        "dup": dup, **({"pre": st.just("id_metadata_big")} if dup_mode == "pre" else {}),
        **({"swap": st.sampled_from([1, 2, 5, 0x55555555, 0xFFFFFFFF]) | st.integers(1, 2 ** 32 - 1)}
           if dup_mode == "swap" else {}), **({"twin": st.just(1)} if dup_mode == "twin" else {})})
    rng = st.fixed_dictionaries({
        "part": st.just("e2e"), "seed": st.integers(0, 2 ** 32 - 1), "format": st.just("id_metadata_range_18plus"),
        "value": st.integers(18, 200).map(_int_to_value), "dup": dup})
    return rng if dup_mode.startswith("range") else exact


def _hyp_e2e_shard(ctx: Ctx, shard: int, nshards: int, n: int) -> None:
    def body(case: dict) -> None:
        if _gave_up(ctx, None, "e2e", case):
            return
        c = _limited(e2e_eval, case)
        if _gave_up(ctx, c, "e2e", case):
            return
        ctx.case(case, not c.fails, cls="b:e2e/" + case["format"] + ("/dup" if case.get("dup") else "") +
                 ("/swap" if case.get("swap") else "") + ("/twin" if case.get("twin") else "") +
                 ("/after-" + case["pre"] if case.get("pre") else ""))
        for v in c.fails.values():
            ctx.violation(v)
        if c.fails:
            raise c.first()
    for mode in ("none", "all", "mask", "range", "range-dup", "pre", "swap", "twin"):
        hyp_run(ctx, "e2e:" + mode, _e2e_strategy(ctx.quick, mode), body, n, shrink_examples=6)


# ======================================================================================================
# driver
# ======================================================================================================

def run(ctx: Ctx) -> None:
    _run_field(ctx)
    shard_run(ctx, _hyp_ser_shard, extra=(150 if ctx.quick else 5000,))
    shard_run(ctx, _hyp_exact_shard, extra=(8 if ctx.quick else 200,))
    if ctx.hist.get("inconclusive:exact", 0) >= MAX_TIMEOUTS_PER_WORKER * 8:
        # nothing that needs a key terminates on this tree: do not spend the same CPU limit again in (c) and (b')
        ctx.inconclusive.append("parts (c) and (b') skipped: cases of (b) ran into the CPU limit in most workers")
        ctx.count("skipped_after_cpu_limit:parts_c_and_e2e")
        return
    shard_run(ctx, _hyp_range_shard, extra=(4 if ctx.quick else 60,))
    shard_run(ctx, _hyp_e2e_shard, extra=(1 if ctx.quick else 15,))


_EVAL = {"exact": exact_eval, "range": range_eval, "ser": ser_eval, "e2e": e2e_eval, "keys": keys_eval}


def replay(ctx: Ctx, case: dict) -> None:
    part = case.get("part")
    if part == "field":
        f = field_eval(case)
        if f.fails:
            raise next(iter(f.fails.values()))
        return
    if part in _EVAL:
        c = _limited(_EVAL[part], case)
        if c.inconclusive:
            raise HarnessError(f"replay inconclusive: {c.inconclusive}")
        if c.first() is not None:
            raise c.first()
        return
    raise HarnessError(f"unknown case part {part!r}")
