"""
C17 - identity attestations and token disclosure require the owner's consent.

Four real ``IdentityCommunity`` instances (attester A = node 0, subjects S1 = 1, S2 = 2, outsider M = 3; every
node can play every role) on ``pv.nodes.Node`` / ``SimNet`` under the virtual clock, each with an
``IdentityManager`` on a ':memory:' database. A case is a list of user actions and hostile actions, interpreted
inside one ``vloop.run``:

    reg      Y.add_known_hash(hash, name, key(subject), metadata|None)           (the user's consent)
    adv      X.request_attestation_advertisement(Y, hash, name, metadata)        (honest subject)
    craft    X sends Y a DisclosePayload built by the harness from material signed with X's own key
             (content re-sent, root dropped, token / metadata signature bit flipped, dangling pointer, tokens of
             another key, forged embedded attestation, second metadata for a token, fresh side chains ...)
    attest   X sends Y an AttestPayload: own signature / a third party's signature / altered / short
    reqmiss  X sends Y RequestMissingPayload(known)
    replay   a datagram of the wire log is injected again, byte for byte
    wait     the virtual clock advances (registrations live 300 s)

The harness delivers every datagram itself (FIFO, at most FLIGHT_BUDGET per action, the rest is lost - the
protocol can ping-pong forever) and looks at what the receiving node emits and stores right after each delivery.

Oracle = explicit consent model written from the property statement; it is fed only with (a) the user actions,
(b) the bytes of the datagrams delivered (parsed by hand; signatures checked with the key vault) and (c) for C3
the rows of the subject's own Tokens table (chain positions are recomputed by walking the back-pointers):

  C1   an AttestPayload leaving Y for P with metadata hash md is allowed only if P disclosed md to Y validly signed,
       md points to a token of P whose chain back to P's genesis was disclosed to Y validly signed, Y's user
       registered (content hash of that token, name in md, key(P), metadata None or equal to the extra fields of md)
       at most 300 s ago, and Y has not emitted an attestation for md before. Rows (P, Y, md) in Y's Attestations
       table must correspond to such an emission.
  C1h  (progress, honest flow only - the statement itself is an "only if") after an honest advertise X -> Y whose
       metadata matches Y's *latest* registration for that hash, younger than 300 s, X never having sent crafted
       material to Y, and the last token-carrying message X -> Y listing every token behind the genesis or behind a
       token Y must already hold, Y must have emitted the attestation. (A disclosure whose tokens are listed in
       another order is reported as incorrect by the code although every token ends up attached; the statement
       does not speak about that, so such flows are not judged.)
  C2   a row (R, authority, md, sig) in R's Attestations table exists only if an AttestPayload with exactly these
       bytes, validly signed by ``authority``, was delivered to R in a datagram validly signed by ``authority``;
       every other row must at least verify under its authority key. C2h: a valid attestation for a metadata
       pointer without a row must be stored.
  C3   every token in a MissingResponsePayload (and in an honest DisclosePayload) leaving X for P is a token of
       X's own chain with position < the chain length at X's last advertise to P (0 for a peer X never advertised
       to).
"""
from __future__ import annotations

import hashlib
import itertools
import json
import struct

from .. import keypool, vloop
from ..core import Ctx, HarnessError, Violation, hyp_run, is_known, shard_run

PID = "C17"
LEVEL = "exploration"
EXHAUSTIVE = False
RULE = ("histories of reg / adv / craft / attest / reqmiss / replay / wait over 4 real IdentityCommunity nodes "
        "(4 attribute hashes incl. one 20-byte SHA-1 style, 2 names, metadata None/{}/{a:b}/{a:c}/{a:b,c:d}, waits "
        "from {1,100,150,200,299,300,301,1000} s): three bounded-exhaustive families (E1: two registrations for two "
        "subjects x own advertise x second advertise by S1/S2/M over hash x name x metadata x waits across the 300 s "
        "limit; E2: chain opened to one peer, extended for another, missing-token requests from permitted / "
        "unpermitted peers with known in {0,1,2,5}; E3: attest messages own / third party / altered / short and "
        "byte-for-byte replays of every datagram of the happy path, every crafted disclosure kind from own and fresh "
        "material) plus Hypothesis-drawn histories up to 30 (quick) / 45 (thorough) actions (free actions mixed with "
        "registration+advertise pairs that match or deviate in exactly one of hash / name / metadata / key, half of "
        "them behind a preamble with two registrations for different subjects at one attester). Non-trivial = a disclosure or missing-response reached a node holding two live "
        "registrations for different subject keys, or reached it after a registration for the sender had expired, "
        "or a datagram / already attested disclosure was replayed, or tokens were requested by an unpermitted peer "
        "or with a chain longer than the opened position, or an attestation signed by a third party / altered was "
        "delivered; distinct = digest of the action list.")
ASSUMPTIONS = [
    "signature verification of the key vault (libsodium) is trusted; SHA3-256 collisions do not occur",
    "upper bound of consent (C1) counts every registration the user ever made, also one overwritten by a later "
    "registration of the same hash; age exactly 300 s is accepted either way; the progress clauses (C1h, C2h) are "
    "only asserted for honest flows without crafted material between the two nodes, for disclosures that arrive "
    "while the receiver's user has named the sender in a registration (others may be dropped) and list their "
    "tokens parent-first",
    "a registration consents to every metadata entry that matches it (the same hash advertised twice yields two "
    "attestations), but to each metadata entry only once",
    "the network may lose datagrams: at most FLIGHT_BUDGET deliveries per action, the rest is dropped",
    "attestations embedded in a DisclosePayload are only required to verify under the authority key they name",
]

NNODES = 4
ROLE = ["A", "S1", "S2", "M"]
HASHES = [b"\x11" * 32, b"\x22" * 32, b"\x33" * 32, b"\x44" * 20]
NAMES = ["name0", "name1"]
REG_META = [None, {}, {"a": "b"}]
ADV_META = [None, {"a": "b"}, {"a": "c"}, {"a": "b", "c": "d"}]
WAITS = [1, 100, 150, 200, 299, 300, 301, 1000]
KNOWN = [0, 1, 2, 5, 11, 2 ** 32 - 1]
LIMIT = 300
FLIGHT_BUDGET = 30
SIG = 64
TOK = 64 + SIG
CRAFT_MUT = ["none", "drop_root", "bad_token_sig", "bad_md_sig", "wrong_pointer", "foreign_tokens", "forged_att",
             "self_att", "md_only", "tokens_only", "remd", "forged_tip_first", "tip_then_rest_later"]
ATTEST_MODES = ["own", "third", "observed", "alt_ptr", "alt_sig", "short"]
AA_SITE = "should_sign:already_attested"
AA_SHADOW_SITE = "should_sign:already_attested:other_authority_on_same_metadata"


def pad(h: bytes) -> bytes:
    """
    Old-style 20 byte SHA-1 hashes live in the 32 byte space behind a fixed prefix (docstring of pad_hash).
    """
    return b"SHA-1" + b"\x00" * 7 + h if len(h) == 20 else h


def sha3(b: bytes) -> bytes:
    return hashlib.sha3_256(b).digest()


def flip(b: bytes, pos: int) -> bytes:
    pos %= len(b)
    return b[:pos] + bytes([b[pos] ^ 0x01]) + b[pos + 1:]


# ---- the consent model ------------------------------------------------------------------------------------

class View:
    """
    What one node has been shown, validly signed, of one other key's chain.
    """

    def __init__(self) -> None:
        self.tokens: dict[bytes, tuple[bytes, bytes]] = {}    # token hash -> (previous hash, content hash)
        self.mds: dict[bytes, tuple[bytes, bytes]] = {}       # metadata hash -> (token pointer, json bytes)

    def chain_ok(self, th: bytes, genesis: bytes) -> bool:
        seen = set()
        while th in self.tokens and th not in seen:
            seen.add(th)
            prev = self.tokens[th][0]
            if prev == genesis:
                return True
            th = prev
        return False


class Model:
    def __init__(self, keybins: list[bytes]) -> None:
        n = len(keybins)
        self.keybins = keybins
        self.genesis = [sha3(k) for k in keybins]
        self.regs: list[list[dict]] = [[] for _ in range(n)]
        self.view = [[View() for _ in range(n)] for _ in range(n)]          # view[y][p]
        self.attested: list[set] = [set() for _ in range(n)]                # (p, md hash) emitted by y
        self.own: list[dict[bytes, int]] = [{} for _ in range(n)]           # token hash -> chain position
        self.opened: list[dict[int, int]] = [{} for _ in range(n)]          # opened[x][p]
        self.delivered_att: list[set] = [set() for _ in range(n)]           # (authority idx, ptr, sig) valid, to r
        self.embedded_att: list[set] = [set() for _ in range(n)]            # (subject idx, authority bin, ptr, sig)
        self.dirty: set[tuple[int, int]] = set()
        self.lower = [[set() for _ in range(n)] for _ in range(n)]           # lower[y][p]: see show_tokens
        self.last_in_order: dict[tuple[int, int], bool] = {}                # (p, y): last token message p -> y

    # -- user consent ---------------------------------------------------------------------------------------
    def register(self, y: int, h: bytes, name: str, subj: int, meta: dict | None, now: float) -> None:
        self.regs[y].append({"hash": pad(h), "name": name, "subj": subj,
                             "meta": None if meta is None else dict(meta), "t": now})

    def latest(self, y: int) -> dict[bytes, dict]:
        out: dict[bytes, dict] = {}
        for r in self.regs[y]:
            out[r["hash"]] = r
        return out

    def why_not(self, y: int, p: int, mdh: bytes, now: float, strict: bool = False) -> str | None:
        """
        None if the statement lets y attest metadata mdh of subject p now, else the first condition that fails.
        ``strict``: the progress variant (latest registrations only, age strictly below the limit).
        """
        v = self.view[y][p]
        if mdh not in v.mds:
            return "undisclosed_metadata"
        ptr, js = v.mds[mdh]
        if not v.chain_ok(ptr, self.genesis[p]):
            return "chain"
        chash = v.tokens[ptr][1]
        try:
            tx = json.loads(js)
        except ValueError:
            return "metadata_json"
        if not isinstance(tx, dict):
            return "metadata_json"
        regs = list(self.latest(y).values()) if strict else self.regs[y]
        stage = [r for r in regs if r["hash"] == chash]
        if not stage:
            return "unregistered_hash"
        tests = [
            ("subject_key", lambda r: r["subj"] == p),
            ("expired", lambda r: (now - r["t"] < LIMIT) if strict else (now - r["t"] <= LIMIT)),
            ("name", lambda r: "name" in tx and tx["name"] == r["name"]),
            ("metadata", lambda r: r["meta"] is None or
             {k: val for k, val in tx.items() if k not in ("name", "date", "schema")} == r["meta"]),
        ]
        if not any(all(t(r) for _, t in tests) for r in stage):
            for label, t in tests:
                stage = [r for r in stage if t(r)]
                if not stage:
                    return label
            return "combination"   # every condition is met by some registration, but by no single one
        if strict and not all(k in tx for k in ("name", "date", "schema")):
            return "fields"
        if (p, mdh) in self.attested[y]:
            return "already_attested"
        return None

    # -- what a node is shown -----------------------------------------------------------------------------------
    def verify(self, signer: int, msg: bytes, sig: bytes) -> bool:
        return _verify(self.keybins[signer], msg, sig)

    def show_tokens(self, y: int, p: int, blob: bytes, solicited: bool) -> bool:
        """
        Returns whether the blob was a sequence of valid tokens, each behind the genesis or a token that y must
        already hold (``lower``: tokens that arrived that way while a current registration of y named p). Only
        such a message is *required* to be acted upon (C1h); the upper bound (C1) uses everything ever shown.
        """
        tokens = self.view[y][p].tokens
        lower = self.lower[y][p]
        in_order = solicited and len(blob) % TOK == 0
        for off in range(0, len(blob) - TOK + 1, TOK):
            prev, chash, sig = blob[off:off + 32], blob[off + 32:off + 64], blob[off + 64:off + TOK]
            if self.verify(p, prev + chash, sig):
                th = sha3(blob[off:off + TOK])
                tokens[th] = (prev, chash)
                if prev == self.genesis[p] or prev in lower:
                    if solicited:
                        lower.add(th)
                else:
                    in_order = False
            else:
                in_order = False
        return in_order

    def show_metadata(self, y: int, p: int, blob: bytes) -> list[bytes]:
        off = 0
        shown = []
        while off + 4 <= len(blob):
            ln, = struct.unpack_from(">I", blob, off)
            md = blob[off + 4:off + 4 + ln]
            off += 4 + ln
            if len(md) < 32 + SIG:
                continue
            ptr, js, sig = md[:32], md[32:-SIG], md[-SIG:]
            if self.verify(p, ptr + js, sig):
                self.view[y][p].mds[sha3(md)] = (ptr, js)
                shown.append(sha3(md))
        return shown


_VERIFY_CACHE: dict[tuple, bool] = {}


def _verify(keybin: bytes, msg: bytes, sig: bytes) -> bool:
    k = (keybin, msg, sig)
    hit = _VERIFY_CACHE.get(k)
    if hit is None:
        from ipv8.keyvault.crypto import default_eccrypto
        try:
            hit = bool(default_eccrypto.is_valid_signature(default_eccrypto.key_from_public_bin(keybin), msg, sig))
        except Exception:  # noqa: BLE001 - an unparsable key or signature is an invalid signature
            hit = False
        if len(_VERIFY_CACHE) > 200_000:
            _VERIFY_CACHE.clear()
        _VERIFY_CACHE[k] = hit
    return hit


# ---- one case ---------------------------------------------------------------------------------------------

class Run:
    def __init__(self, ops: list, loop, known_aa: tuple) -> None:
        from ipv8.attestation.identity.community import IdentityCommunity
        from ipv8.attestation.identity.manager import IdentityManager
        from ipv8.messaging.serialization import default_serializer
        from .. import nodes, simnet
        self.ops = ops
        self.case = {"ops": ops}
        self.loop = loop
        self.known_aa = known_aa
        self.excluded = 0
        self.net = simnet.SimNet(loop, auto=False)
        self.nodes = [nodes.Node(self.net, i) for i in range(NNODES)]
        for n in self.nodes:
            n.add(IdentityCommunity, identity_manager=IdentityManager(":memory:"))
        self.peer = [[None] * NNODES for _ in range(NNODES)]
        for a in range(NNODES):
            for b in range(NNODES):
                if a != b:
                    self.peer[a][b] = nodes.know(self.nodes[a], self.nodes[b])
        self.ov = [n.overlay for n in self.nodes]
        self.keybins = [n.key.pub().key_to_bin() for n in self.nodes]
        self.key_idx = {k: i for i, k in enumerate(self.keybins)}
        self.addr_idx = {tuple(n.address): i for i, n in enumerate(self.nodes)}
        self.ep_idx = {id(n.raw_endpoint): i for i, n in enumerate(self.nodes)}
        self.prefix = self.ov[0].get_prefix()
        self.serializer = default_serializer
        self.model = Model(self.keybins)
        self.rows: list[set] = [set() for _ in range(NNODES)]
        self.crafted: set[int] = set()        # seq numbers of datagrams the harness sent on a node's behalf
        self.attr_override: dict = {}           # (answering node, destination address) -> key the answer is really given to
        self.checked = 0                      # log entries already judged as emissions
        self.viols: list[Violation] = []
        self.flags: set[str] = set()
        self.wire_atts: list[tuple[int, bytes]] = []   # (signer idx, attestation bytes) seen on the wire
        self.held_rest: dict[tuple[int, int], bytes] = {}
        self.stats = {"attest_emitted": 0, "own_tokens_on_wire": 0, "rows": 0, "cut": 0, "delivered": 0,
                      "must_attest": 0, "must_store": 0}

    # -- helpers ------------------------------------------------------------------------------------------------
    def now(self) -> float:
        return self.loop.time()

    def fail(self, clause: str, site: str, msg: str) -> None:
        if clause == "C1" and site in self.known_aa:
            self.excluded += 1
            return
        self.viols.append(Violation(clause, site, msg, self.case))

    def parse(self, data: bytes):
        """
        (msg id, sender idx, payload) of a well-formed, validly signed datagram of this overlay, else None.
        Framing by hand (prefix, message id, 2-byte length + key, body, 64 byte signature); body fields through the
        real serializer.
        """
        from ipv8.attestation.identity import payload as pl
        if len(data) < 25 + SIG or data[:22] != self.prefix:
            return None
        msg_id = data[22]
        klen, = struct.unpack_from(">H", data, 23)
        keybin = data[25:25 + klen]
        sender = self.key_idx.get(keybin)
        if sender is None or len(data) < 25 + klen + SIG:
            return None
        if not _verify(keybin, data[:-SIG], data[-SIG:]):
            return None
        cls = {1: pl.DisclosePayload, 2: pl.AttestPayload, 3: pl.RequestMissingPayload,
               4: pl.MissingResponsePayload}.get(msg_id)
        if cls is None:
            return None
        try:
            payload, _ = self.serializer.unpack_serializable(cls, data[25 + klen:-SIG], 0)
        except Exception:  # noqa: BLE001 - undecodable body: the node has to drop it too
            return None
        return msg_id, sender, payload

    def db_rows(self, i: int) -> set:
        db = self.ov[i].identity_manager.database
        return {tuple(bytes(c) for c in row) for row in
                db.execute("SELECT public_key, authority_key, metadata_pointer, signature FROM Attestations")}

    def refresh_own(self, x: int) -> None:
        """
        Positions of x's own tokens, by walking the back-pointers of the rows of its Tokens table.
        """
        db = self.ov[x].identity_manager.database
        toks = {}
        for prev, chash, sig in db.execute("SELECT previous_token_hash, content_hash, signature FROM Tokens "
                                           "WHERE public_key = ?", (self.keybins[x],)):
            prev, chash, sig = bytes(prev), bytes(chash), bytes(sig)
            toks[sha3(prev + chash + sig)] = prev
        pos: dict[bytes, int] = {}
        genesis = self.model.genesis[x]
        for th in toks:
            path, cur = [], th
            while cur in toks and cur not in pos and len(path) <= len(toks):
                path.append(cur)
                cur = toks[cur]
            base = -1 if cur == genesis else pos.get(cur)
            if base is None:
                continue
            for k, t in enumerate(reversed(path)):
                pos[t] = base + 1 + k
        self.model.own[x] = pos

    # -- observation ----------------------------------------------------------------------------------------------
    def judge_emissions(self) -> None:
        """
        Judge every datagram that nodes themselves put on the wire since the last call.
        """
        log = self.net.log
        while self.checked < len(log):
            fl = log[self.checked]
            self.checked += 1
            if fl.origin is None or fl.seq in self.crafted:
                continue
            y = self.ep_idx.get(id(fl.origin))
            p = self.addr_idx.get(tuple(fl.dst))
            parsed = self.parse(fl.data)
            if y is None or parsed is None:
                self.fail("C0", "wire", f"node {y} emitted a datagram that does not parse: {fl.data[:40].hex()}")
                continue
            msg_id, sender, payload = parsed
            if sender != y:
                self.fail("C0", "wire", f"node {y} emitted a datagram signed by node {sender}")
                continue
            if msg_id == 2:
                self.judge_attest(y, p, payload.attestation)
            elif msg_id == 4:
                self.judge_tokens(y, self.attr_override.get((y, tuple(fl.dst)), p), payload.tokens, "on_request_missing")
            elif msg_id == 1:
                self.judge_tokens(y, p, payload.tokens, "disclose")

    def judge_attest(self, y: int, p: int | None, att: bytes) -> None:
        self.stats["attest_emitted"] += 1
        mdh, sig = att[:32], att[32:32 + SIG]
        self.wire_atts.append((y, att))
        if p is None:
            self.fail("C1", "attest:destination", f"{ROLE[y]} sent an attestation to an unknown address")
            return
        why = self.model.why_not(y, p, mdh, self.now())
        if why == "already_attested" and any(
                subj == p and ptr == mdh and auth != self.keybins[y] and _verify(auth, ptr, s)
                for subj, auth, ptr, s in self.model.embedded_att[y]):
            # second root cause: y was shown a valid attestation of another authority over the same metadata
            # (the Attestations table has room for one row per metadata entry)
            why = "already_attested:other_authority_on_same_metadata"
        if why is not None:
            owner = [ROLE[q] for q in range(NNODES) if mdh in self.model.view[y][q].mds]
            self.fail("C1", "should_sign:" + why,
                      f"{ROLE[y]} attested metadata {mdh[:6].hex()} (disclosed by {owner}) for {ROLE[p]} at "
                      f"t+{self.now() - vloop.EPOCH:.0f}s without consent: {why}; registrations of {ROLE[y]}: "
                      f"{self.describe_regs(y)}")
        self.model.attested[y].add((p, mdh))
        if not self.model.verify(y, mdh, sig):
            self.fail("C1", "attest:signature", f"{ROLE[y]} sent an attestation that does not verify under its key")

    def describe_regs(self, y: int) -> list:
        return [[r["hash"][-2:].hex(), r["name"], ROLE[r["subj"]], r["meta"], round(self.now() - r["t"])]
                for r in self.model.regs[y]]

    def judge_tokens(self, x: int, p: int | None, blob: bytes, site: str) -> None:
        limit = 0 if p is None else self.model.opened[x].get(p, 0)
        for off in range(0, len(blob) - TOK + 1, TOK):
            th = sha3(blob[off:off + TOK])
            pos = self.model.own[x].get(th)
            if pos is None:
                continue   # not a token of the own chain: the statement does not speak about it
            self.stats["own_tokens_on_wire"] += 1
            if pos >= limit:
                kind = "unpermitted_peer" if limit == 0 else "beyond_opened_position"
                self.fail("C3", f"{site}:{kind}",
                          f"{ROLE[x]} handed token #{pos} of its chain to "
                          f"{ROLE[p] if p is not None else 'an unknown address'} although it opened only "
                          f"{limit} position(s) to that peer")

    def judge_rows(self) -> None:
        for r in range(NNODES):
            cur = self.db_rows(r)
            new = cur - self.rows[r]
            if self.rows[r] - cur:
                self.fail("C2", "rows", f"rows vanished from the Attestations table of {ROLE[r]}")
            self.rows[r] = cur
            for pk, auth, ptr, sig in sorted(new):
                self.stats["rows"] += 1
                subj, a = self.key_idx.get(pk), self.key_idx.get(auth)
                valid = _verify(auth, ptr, sig)
                if a == r and subj != r:
                    if subj is None or (subj, ptr) not in self.model.attested[r]:
                        self.fail("C1", "row_without_attest_message",
                                  f"{ROLE[r]} stored an own attestation for {ptr[:6].hex()} that it never sent")
                elif subj == r:
                    if a is None or (a, ptr, sig) not in self.model.delivered_att[r]:
                        site = "on_attest:invalid_signature" if not valid else "on_attest:not_signed_by_sender"
                        self.fail("C2", site,
                                  f"{ROLE[r]} stored an attestation for {ptr[:6].hex()} under authority "
                                  f"{ROLE[a] if a is not None else auth[:8].hex()} (signature valid under that key: "
                                  f"{valid}) that no validly signed AttestPayload of that authority delivered")
                elif not valid:
                    self.fail("C2", "substantiate:invalid_signature",
                              f"{ROLE[r]} stored an attestation for {ptr[:6].hex()} of "
                              f"{ROLE[subj] if subj is not None else '?'} whose signature does not verify under the "
                              f"authority key it is filed under")
                elif (subj, auth, ptr, sig) not in self.model.embedded_att[r]:
                    self.fail("C2", "substantiate:provenance",
                              f"{ROLE[r]} stored a third-party attestation that nobody disclosed to it")

    # -- delivery -------------------------------------------------------------------------------------------------
    def deliver(self, fl) -> None:
        y = self.addr_idx.get(tuple(fl.dst))
        parsed = self.parse(fl.data)
        must_store = None
        if y is not None and parsed is not None:
            msg_id, p, payload = parsed
            m = self.model
            if p != y:
                if msg_id in (1, 4):
                    live = {r["subj"] for r in m.latest(y).values() if self.now() - r["t"] <= LIMIT}
                    if len(live) >= 2:
                        self.flags.add("two_live")
                    if any(r["subj"] == p and self.now() - r["t"] > LIMIT for r in m.latest(y).values()):
                        self.flags.add("after_expiry")
                # lower bound for the progress clause: a registration that was overwritten no longer solicits
                solicited = any(r["subj"] == p for r in m.latest(y).values())
                if msg_id == 1:
                    m.last_in_order[(p, y)] = m.show_tokens(y, p, payload.tokens, solicited)
                    if any((p, mdh) in m.attested[y] for mdh in m.show_metadata(y, p, payload.metadata)):
                        self.flags.add("replay_attested")
                    self.show_embedded(y, p, payload.attestations, payload.authorities)
                elif msg_id == 4:
                    m.last_in_order[(p, y)] = m.show_tokens(y, p, payload.tokens, solicited)
                elif msg_id == 2:
                    att = payload.attestation
                    if len(att) >= 32 + SIG and m.verify(p, att[:32], att[32:32 + SIG]):
                        m.delivered_att[y].add((p, att[:32], att[32:32 + SIG]))
                        if not any(pk == self.keybins[y] and ptr == att[:32] for pk, _, ptr, _ in self.rows[y]):
                            self.stats["must_store"] += 1
                            must_store = (self.keybins[y], self.keybins[p], att[:32], att[32:32 + SIG])
                    else:
                        self.flags.add("bad_attest")
                elif msg_id == 3:
                    if len(m.own[y]) > m.opened[y].get(p, 0):
                        self.flags.add("beyond")
        self.stats["delivered"] += 1
        self.net.deliver(fl)
        self.judge_emissions()
        self.judge_rows()
        if must_store is not None and must_store not in self.rows[y]:
            self.fail("C2h", "on_attest", f"{ROLE[y]} did not store a valid attestation sent and signed by "
                                          f"{ROLE[self.key_idx[must_store[1]]]}")
        if self.net.escaped:
            self.stats["escaped"] = len(self.net.escaped)   # judged by C03/C04, not here

    def show_embedded(self, y: int, p: int, atts: bytes, auths: bytes) -> None:
        aoff = 0
        off = 0
        while off + 2 <= len(auths):
            ln, = struct.unpack_from(">H", auths, off)
            auth = auths[off + 2:off + 2 + ln]
            off += 2 + ln
            att = atts[aoff:aoff + 32 + SIG]
            aoff += 32 + SIG
            if len(att) == 32 + SIG:
                self.model.embedded_att[y].add((p, auth, att[:32], att[32:]))

    def pump(self) -> None:
        k = 0
        while self.net.inflight:
            if k >= FLIGHT_BUDGET:
                self.stats["cut"] += 1
                for fl in list(self.net.inflight):
                    self.net.drop(fl)
                break
            self.deliver(self.net.inflight[0])
            k += 1

    def send_as(self, x: int, y: int, payload) -> None:
        """
        The harness uses node x's overlay (and key) to send a hand-made payload to y.
        """
        n0 = len(self.net.log)
        self.ov[x].ez_send(self.peer[x][y], payload)
        for fl in self.net.log[n0:]:
            self.crafted.add(fl.seq)

    # -- actions ----------------------------------------------------------------------------------------------------
    async def step(self, op: list) -> None:
        from ipv8.attestation.identity import payload as pl
        kind = op[0]
        m = self.model
        if kind == "reg":
            _, y, h, nm, subj, meta = op
            meta_v = None if REG_META[meta] is None else dict(REG_META[meta])
            self.ov[y].add_known_hash(HASHES[h], NAMES[nm], self.keybins[subj], meta_v)
            m.register(y, HASHES[h], NAMES[nm], subj, REG_META[meta], self.now())
        elif kind == "adv":
            _, x, y, h, nm, meta = op
            meta_v = None if ADV_META[meta] is None else dict(ADV_META[meta])
            self.ov[x].request_attestation_advertisement(self.peer[x][y], HASHES[h], NAMES[nm], "id_metadata", meta_v)
            self.refresh_own(x)
            m.opened[x][y] = 1 + max(m.own[x].values(), default=-1)   # the whole chain up to the new credential
            self.judge_emissions()
            self.pump()
            self.progress(x, y)
        elif kind == "craft":
            self.craft(*op[1:])
            self.pump()
        elif kind == "rest":
            self.rest(op[1], op[2])
            self.pump()
        elif kind == "attest":
            self.attest(*op[1:])
            self.pump()
        elif kind == "reqmiss":
            _, x, y, known = op
            self.send_as(x, y, pl.RequestMissingPayload(KNOWN[known]))
            self.pump()
        elif kind == "reqmiss_via":
            # a request for tokens signed by x reaches y from the address of z (another identity on z's host, two hosts
            # behind one NAT address, an address taken over): what y answers is handed out to key x, wherever it is sent
            _, x, y, known, z = op
            zaddr = next(a for a, i in self.addr_idx.items() if i == z)
            yaddr = next(a for a, i in self.addr_idx.items() if i == y)
            packet = self.ov[x].ezr_pack(pl.RequestMissingPayload.msg_id, pl.RequestMissingPayload(KNOWN[known]))
            fl = self.net.inject(zaddr, yaddr, packet, note="request for tokens from a shared address")
            self.crafted.add(fl.seq)
            self.attr_override[(y, tuple(zaddr))] = x
            self.flags.add("shared_address")
            self.pump()
            self.attr_override.clear()
        elif kind == "replay":
            log = self.net.log
            if log:
                fl = log[op[1] % len(log)]
                self.flags.add("replay")
                self.net.inject(fl.src, fl.dst, fl.data, note="replay")
                self.pump()
        elif kind == "wait":
            import asyncio
            await asyncio.sleep(WAITS[op[1]])
        else:
            raise HarnessError(f"unknown action {op}")
        self.judge_emissions()
        self.judge_rows()

    def progress(self, x: int, y: int) -> None:
        """
        C1h after an honest advertise x -> y.
        """
        m = self.model
        if (x, y) in m.dirty or not m.own[x] or not m.last_in_order.get((x, y)):
            return
        tip = max(m.own[x], key=lambda t: m.own[x][t])
        for mdh, (ptr, _) in sorted(m.view[y][x].mds.items()):
            if ptr != tip:
                continue
            if (x, mdh) in m.attested[y]:
                self.stats["must_attest"] += 1
                continue
            if m.why_not(y, x, mdh, self.now(), strict=True) is None:
                self.stats["must_attest"] += 1
                self.fail("C1h", "honest_advertise",
                          f"{ROLE[y]} did not attest the honestly advertised metadata {mdh[:6].hex()} of {ROLE[x]} "
                          f"although its latest registration matches: {self.describe_regs(y)}")

    def craft(self, x: int, y: int, mut: int | str, j: int, hs: list, nm: int, meta: int, omit: int, own: int) -> None:
        from ipv8.attestation.identity import payload as pl
        from ipv8.attestation.identity.metadata import Metadata
        from ipv8.attestation.tokentree.token import Token
        key = self.nodes[x].key
        mutation = mut if isinstance(mut, str) else CRAFT_MUT[mut % len(CRAFT_MUT)]
        self.model.dirty.add((x, y))
        ov = self.ov[x]

        def make_md(pointer: bytes) -> Metadata:
            fields = {"name": NAMES[nm], "schema": "id_metadata", "date": self.now()}
            if ADV_META[meta]:
                fields.update(ADV_META[meta])
            if omit:
                fields.pop(["name", "schema", "date"][omit - 1], None)
            return Metadata(pointer, json.dumps(fields).encode(), key)

        if own and ov.token_chain:
            j %= len(ov.token_chain)
            tokens = list(ov.token_chain[:j + 1])
            md = ov.metadata_chain[j]
        else:
            # a side chain signed with x's key that x's own database never sees
            tokens, prev = [], self.model.genesis[x]
            for h in (hs or [0]):
                t = Token(prev, content_hash=pad(HASHES[h % len(HASHES)]), private_key=key)
                tokens.append(t)
                prev = t.get_hash()
            md = make_md(tokens[-1].get_hash())
        tok_blobs = [t.get_plaintext_signed() for t in tokens]
        md_blob = md.get_plaintext_signed()
        atts = auths = b""
        if mutation == "drop_root":
            tok_blobs = tok_blobs[1:]
        elif mutation == "bad_token_sig":
            tok_blobs[-1] = flip(tok_blobs[-1], 64 + j)
        elif mutation == "bad_md_sig":
            md_blob = flip(md_blob, len(md_blob) - 1 - (j % SIG))
        elif mutation == "wrong_pointer":
            md_blob = make_md(sha3(b"nowhere")).get_plaintext_signed()
        elif mutation == "foreign_tokens":
            other = self.nodes[(x + 1 + j % (NNODES - 1)) % NNODES].key
            prev, tok_blobs = sha3(other.pub().key_to_bin()), []
            for t in tokens:
                ft = Token(prev, content_hash=t.content_hash, private_key=other)
                tok_blobs.append(ft.get_plaintext_signed())
                prev = ft.get_hash()
            md_blob = Metadata(prev, md.serialized_json_dict, key).get_plaintext_signed()
        elif mutation == "forged_att":
            # "y has already attested this", signed by x
            atts = md.get_hash() + key.signature(md.get_hash())
            auths = struct.pack(">H", len(self.keybins[y])) + self.keybins[y]
        elif mutation == "self_att":
            atts = md.get_hash() + key.signature(md.get_hash())
            auths = struct.pack(">H", len(self.keybins[x])) + self.keybins[x]
        elif mutation == "md_only":
            tok_blobs = []
        elif mutation == "remd":
            md_blob = make_md(tokens[-1].get_hash()).get_plaintext_signed()
        if mutation == "forged_tip_first":
            # the tip of the chain is signed by ANOTHER key (correct back-pointer), the metadata - validly signed by x -
            # points at it; the forged tip is disclosed first, alone, and the genuine tokens below it follow as an
            # (unsolicited or solicited) missing-response. The chain never verifies.
            other = self.nodes[(x + 1 + j % (NNODES - 1)) % NNODES].key
            below = tok_blobs[:-1]
            prev = sha3(below[-1]) if below else self.model.genesis[x]
            tip = Token(prev, content_hash=tokens[-1].content_hash, private_key=other)
            md2 = Metadata(tip.get_hash(), md.serialized_json_dict, key)
            md2_blob = md2.get_plaintext_signed()
            self.send_as(x, y, pl.DisclosePayload(struct.pack(">I", len(md2_blob)) + md2_blob, tip.get_plaintext_signed(),
                                                  b"", b""))
            self.pump()
            if below:
                self.send_as(x, y, pl.MissingResponsePayload(b"".join(below)))
            return
        if mutation == "tip_then_rest_later":
            # nothing is altered: the metadata and the tip of the chain are disclosed now, the tokens below the tip are
            # held back until a later "rest" operation (a slow or stalling subject)
            self.held_rest[(x, y)] = b"".join(tok_blobs[:-1])
            tok_blobs = tok_blobs[-1:]
        md_field = b"" if mutation == "tokens_only" else struct.pack(">I", len(md_blob)) + md_blob
        self.send_as(x, y, pl.DisclosePayload(md_field, b"".join(tok_blobs), atts, auths))

    def rest(self, x: int, y: int) -> None:
        from ipv8.attestation.identity import payload as pl
        blob = self.held_rest.pop((x, y), None)
        if blob is not None:
            self.send_as(x, y, pl.MissingResponsePayload(blob))

    def attest(self, x: int, y: int, mode: int, k: int) -> None:
        from ipv8.attestation.identity import payload as pl
        what = ATTEST_MODES[mode % len(ATTEST_MODES)]
        mds = sorted(mdh for v in self.model.view for w in v for mdh in w.mds)
        ptr = mds[k % len(mds)] if mds else sha3(b"pointer%d" % k)
        signer = x
        if what == "third":
            signer = (x + 1 + k % (NNODES - 1)) % NNODES
            if signer == y:
                signer = next(i for i in range(NNODES) if i not in (x, y))
        att = ptr + self.nodes[signer].key.signature(ptr)
        if what == "observed":
            cands = [a for (s, a) in self.wire_atts if s != x]
            if cands:
                att = cands[k % len(cands)]
                signer = -1
        if what == "alt_ptr":
            att = flip(att, k % 32)
        elif what == "alt_sig":
            att = flip(att, 32 + k % SIG)
        elif what == "short":
            att = att[:32 + k % SIG]
        if signer != x or what in ("alt_ptr", "alt_sig"):
            self.flags.add("bad_attest")
        self.send_as(x, y, pl.AttestPayload(att))

    async def main(self) -> None:
        for op in self.ops:
            await self.step(op)
        if self.loop.escaped:
            self.stats["escaped_tasks"] = len(self.loop.escaped)

    async def close(self) -> None:
        for n in self.nodes:
            await n.unload()
            n.overlay.identity_manager.database.close()


NT_FLAGS = ("two_live", "after_expiry", "replay", "replay_attested", "beyond", "bad_attest")


def execute(ctx: Ctx | None, ops: list, known_aa: tuple = ()) -> Run:
    # the modules must be loaded before the clock is patched into them
    import ipv8.attestation.identity.community  # noqa: F401
    box: list[Run] = []

    async def main(loop):
        run = Run(ops, loop, known_aa)
        box.append(run)
        try:
            await run.main()
        finally:
            await run.close()

    vloop.run(main)
    run = box[0]
    if ctx is not None:
        nt = sorted(f for f in run.flags if f in NT_FLAGS)
        ctx.case(run.case, bool(nt), cls="+".join(nt) or "plain")
        ctx.excluded_known += run.excluded
        for k, v in run.stats.items():
            ctx.count("obs:" + k, v)
        for v in run.viols:
            ctx.violation(v)
    if run.viols:
        # the very frequent re-attestation signature must not hide the others from the shrinker
        other = [v for v in run.viols if v.site != AA_SITE]
        other = [v for v in other if v.site != AA_SHADOW_SITE] or other
        raise (other or run.viols)[0]
    return run


# ---- bounded-exhaustive families ---------------------------------------------------------------------------

A, S1, S2, M = 0, 1, 2, 3


def family_e1(quick: bool):
    """
    Two live registrations for different subjects; S2 first gets its own attribute attested, then somebody
    advertises an attribute over hash x name x metadata, across the time limit.
    """
    for rmeta, w1, w2, x, h, nm, ameta in itertools.product(
            (0, 1, 2), (None, 3), (None, 2, 6), (S1, S2, M), (0, 1, 2), (0, 1), (0, 1, 2)):
        ops = [["reg", A, 0, 0, S1, rmeta], ["reg", A, 1, 0, S2, 0]]
        if w1 is not None:
            ops.append(["wait", w1])
        ops.append(["adv", S2, A, 1, 0, 0])
        if w2 is not None:
            ops.append(["wait", w2])
        ops.append(["adv", x, A, h, nm, ameta])
        yield ops
    if not quick:
        # the same with the roles of the keys swapped and re-registration after expiry
        for x, h, w in itertools.product((S1, S2), (0, 1, 3), (2, 4, 5, 6)):
            yield [["reg", A, 0, 0, S2, 0], ["reg", A, 3, 1, S1, 0], ["adv", S1, A, 3, 1, 0], ["wait", w],
                   ["adv", x, A, h, 0, 0], ["reg", A, 0, 0, S2, 0], ["adv", x, A, h, 0, 0]]


def family_e2(quick: bool):
    """
    S1 opens k1 positions to A, then extends its chain for S2; tokens are requested by everybody.
    """
    for k1, k2, p, known in itertools.product((1, 2, 3), (0, 1, 2), (A, S2, M), (0, 1, 2, 3)):
        ops = [["reg", A, 0, 0, S1, 0]]
        ops += [["adv", S1, A, i % 3, 0, 0] for i in range(k1)]
        ops += [["adv", S1, S2, (i + 1) % 3, 1, 0] for i in range(k2)]
        ops.append(["reqmiss", p, S1, known])
        yield ops
    for k1, p, known in itertools.product((1, 3), (S2, M), (0, 1)):
        # the unpermitted key asks from the permitted attester's address
        yield [["reg", A, 0, 0, S1, 0]] + [["adv", S1, A, i % 3, 0, 0] for i in range(k1)] + \
            [["reqmiss_via", p, S1, known, A], ["reqmiss", A, S1, 0]]
    if not quick:
        for k1, p in itertools.product((11, 12, 21), (A, S2, M)):
            ops = [["reg", A, 0, 0, S1, 0]] + [["adv", S1, A, i % 4, 0, 0] for i in range(k1)]
            ops += [["adv", S1, S2, 1, 1, 0], ["reqmiss", p, S1, 0], ["reqmiss", p, S1, 4]]
            yield ops


def family_e3(quick: bool):
    """
    Attest messages of every kind after the happy path, and byte-for-byte replays of its datagrams.
    """
    happy = [["reg", A, 0, 0, S1, 0], ["adv", S1, A, 0, 0, 0]]
    for x, y, mode, k in itertools.product((A, S2, M), (S1, A), range(len(ATTEST_MODES)), (0, 1)):
        if x != y:
            yield happy + [["attest", x, y, mode, k]]
    for i, w in itertools.product(range(4), (None, 6)):
        yield happy + ([["wait", w]] if w is not None else []) + [["replay", i]]
    for mut, own in itertools.product(range(len(CRAFT_MUT)), (0, 1)):
        yield happy + [["craft", S1, A, mut, 0, [0], 0, 0, 0, own]]
        yield [["reg", A, 0, 0, S1, 0], ["reg", A, 1, 0, S2, 0], ["adv", S2, A, 1, 0, 0],
               ["craft", S2, A, mut, 0, [1, 0], 0, 0, 0, own]]
        # side chains of two and three tokens whose TIP carries the registered hash: only the chain decides
        yield [["reg", A, 1, 0, S2, 0], ["craft", S2, A, mut, 0, [0, 1], 0, 0, 0, 0]]
        yield [["reg", A, 1, 0, S2, 0], ["craft", S2, A, mut, 1, [2, 0, 1], 0, 0, 0, 0]]


def family_e4(quick: bool):
    """
    A subject that stalls: metadata and tip of a valid chain first, the tokens below it later - before and after the
    registration has lapsed (waits in seconds: 1, 100, 150, 200, 299, 300, 301, 1000).
    """
    mut = CRAFT_MUT.index("tip_then_rest_later")
    for w1, w2, hs, own in itertools.product((None, 1, 2, 3, 4), (None, 1, 2, 3, 4, 6), ([0, 1], [2, 0, 1]), (0, 1)):
        ops = [["reg", A, 1, 0, S2, 0]]
        if own:
            # the subject's own chain: two honest advertisements to somebody else first, so that its chain has depth
            ops += [["reg", M, 0, 0, S2, 0], ["adv", S2, M, 0, 0, 0]]
        if w1 is not None:
            ops.append(["wait", w1])
        ops.append(["craft", S2, A, mut, 1, hs, 0, 0, 0, 0])
        if w2 is not None:
            ops.append(["wait", w2])
        ops.append(["rest", S2, A])
        yield ops


def family_e5(quick: bool):
    """
    One subject, two registrations of different age at the same attester: an expired one and a fresh one; the subject
    advertises both attributes, in either order.
    """
    for (ha, hb), w, first, subj in itertools.product(((0, 1), (1, 0), (0, 2), (3, 0)), (3, 4, 5, 6, 7), (0, 1), (S1, S2)):
        ops = [["reg", A, ha, 0, subj, 0], ["wait", w], ["reg", A, hb, 0, subj, 0]]
        advs = [["adv", subj, A, hb, 0, 0], ["adv", subj, A, ha, 0, 0]]
        ops += advs if first == 0 else advs[::-1]
        yield ops
        yield ops + [["wait", 1], ["adv", subj, A, ha, 0, 0]]


def family_e6(quick: bool):
    """
    Every hash of the pool (incl. the 20-byte one) x every registered metadata x every advertised metadata x name.
    """
    for h, rmeta, ameta, nm, subj in itertools.product(range(len(HASHES)), range(len(REG_META)), range(len(ADV_META)),
                                                       (0, 1), (S1, M)):
        yield [["reg", A, h, 0, subj, rmeta], ["adv", subj, A, h, nm, ameta]]


def _families(quick: bool) -> list:
    out = []
    for fam in (family_e1, family_e2, family_e3, family_e4, family_e5, family_e6):
        out.extend(fam(quick))
    return out


def _enum_shard(ctx: Ctx, shard: int, nshards: int, known_aa: tuple) -> None:
    cases = _families(ctx.quick)
    for k, ops in enumerate(cases):
        if k % nshards != shard:
            continue
        try:
            execute(ctx, ops, known_aa)
        except Violation:
            pass   # recorded by execute
    if shard == 0:
        ctx.note("enumerated_cases", len(cases))


# ---- Hypothesis part -----------------------------------------------------------------------------------------

def _strategy(max_ops: int):
    from hypothesis import strategies as st
    node = st.integers(0, NNODES - 1)
    attester = st.sampled_from([A, A, A, A, S1, S2, M])
    subject = st.sampled_from([S1, S1, S2, S2, M, A])
    h = st.sampled_from([0, 0, 1, 1, 2, 3])
    nm = st.sampled_from([0, 0, 0, 1])

    def distinct(pair):
        return pair[0] != pair[1]
    pair_sa = st.tuples(subject, attester).filter(distinct)
    pair_any = st.tuples(node, node).filter(distinct)
    reg = st.tuples(st.just("reg"), attester, h, nm, subject, st.sampled_from([0, 0, 1, 2])) \
        .filter(lambda t: t[1] != t[4]).map(list)
    adv = st.tuples(pair_sa, h, nm, st.sampled_from([0, 0, 0, 1, 2, 3])) \
        .map(lambda t: ["adv", t[0][0], t[0][1], t[1], t[2], t[3]])
    craft = st.tuples(pair_sa, st.integers(0, len(CRAFT_MUT) - 1), st.integers(0, 5),
                      st.lists(st.integers(0, 3), min_size=1, max_size=3), nm, st.integers(0, 3),
                      st.sampled_from([0, 0, 0, 1, 2, 3]), st.integers(0, 1)) \
        .map(lambda t: ["craft", t[0][0], t[0][1], *t[1:]])
    attest = st.tuples(pair_any, st.integers(0, len(ATTEST_MODES) - 1), st.integers(0, 40)) \
        .map(lambda t: ["attest", t[0][0], t[0][1], t[1], t[2]])
    reqmiss = st.tuples(pair_any, st.integers(0, len(KNOWN) - 1)) \
        .map(lambda t: ["reqmiss", t[0][0], t[0][1], t[1]])
    replay = st.tuples(st.just("replay"), st.integers(0, 60)).map(list)
    wait = st.tuples(st.just("wait"), st.integers(0, len(WAITS) - 1)).map(list)
    # consent immediately followed by the matching (or nearly matching) advertise, so that attestations happen often
    def make_matched(t):
        (x, y), hh, n, rmeta, dev, w = t
        ax, ah, an, ameta = x, hh, n, (1 if rmeta == 2 else 0)
        if dev == "hash":
            ah = (hh + 1) % len(HASHES)
        elif dev == "name":
            an = 1 - n
        elif dev == "meta":
            ameta = 2
        elif dev == "key":
            ax = next(i for i in (S2, S1, M, A) if i not in (x, y))
        return ([["reg", y, hh, n, x, rmeta]] + ([["wait", w]] if w is not None else []) +
                [["adv", ax, y, ah, an, ameta]])
    matched = st.tuples(pair_sa, h, nm, st.sampled_from([0, 0, 0, 2, 1]),
                        st.sampled_from([None, None, None, None, "hash", "name", "meta", "key"]),
                        st.sampled_from([None, None, None, 0, 5, 6])).map(make_matched)
    rest = pair_sa.map(lambda t: ["rest", t[0], t[1]])
    single = st.one_of(reg, adv, adv, craft, attest, reqmiss, replay, replay, wait, rest).map(lambda o: [o])
    # optional preamble: the situation of why_tests_cant - one attester holding live registrations for two
    # different subject keys, one of which already has its own attribute attested
    def make_two(t):
        y, (x1, x2), (h1, h2), n, own = t
        pre = [["reg", y, h1, n, x1, 0], ["reg", y, h2, n, x2, 0]]
        if own:
            pre.append(["adv", x2, y, h2, n, 0])
        return pre
    two = st.tuples(attester, st.permutations([A, S1, S2, M]).map(lambda p: p[:2]),
                    st.permutations([0, 1, 2, 3]).map(lambda p: p[:2]), nm, st.booleans()) \
        .filter(lambda t: t[0] not in t[1]).map(make_two)
    preamble = st.one_of(st.just([]), two)
    body = st.lists(st.one_of(single, single, matched), min_size=1, max_size=max_ops) \
        .map(lambda groups: [o for g in groups for o in g])
    return st.tuples(preamble, body).map(lambda t: (t[0] + t[1])[:max_ops])


def _random_shard(ctx: Ctx, shard: int, nshards: int, n: int, max_ops: int, known_aa: tuple) -> None:
    def body(ops):
        execute(ctx, ops, known_aa)
    hyp_run(ctx, "histories", _strategy(max_ops), body, n, shrink_examples=150 if ctx.quick else 400)


def run(ctx: Ctx) -> None:
    # a recorded (not repaired) re-attestation defect is excluded by construction: the model then tolerates it
    known_aa = tuple(site for site in (AA_SITE, AA_SHADOW_SITE) if is_known(PID, "C1", site) is not None)
    shard_run(ctx, _enum_shard, extra=(known_aa,))
    shard_run(ctx, _random_shard, extra=(150 if ctx.quick else 10000, 30 if ctx.quick else 45, known_aa))
    ctx.note("pools", {"hashes": [h.hex() for h in HASHES], "names": NAMES, "reg_meta": REG_META,
                       "adv_meta": ADV_META, "waits": WAITS, "known": KNOWN, "craft": CRAFT_MUT,
                       "attest": ATTEST_MODES, "flight_budget": FLIGHT_BUDGET})


def replay(ctx: Ctx, case: dict) -> None:
    execute(None, case["ops"])
