"""
Node factories: real overlays with production default settings on SimEndpoints, identities from the key pool.
"""
from __future__ import annotations

from typing import Any

from . import keypool
from .simnet import SimEndpoint, SimNet


class Node:
    """
    One simulated host: endpoint + peer graph + identity + overlays.
    """

    def __init__(self, net: SimNet, idx: int, address: tuple | None = None, lan_address: tuple | None = None,
                 curve: str = "curve25519", key_index: int | None = None, tunnel_endpoint: bool = False,
                 dispatcher: str | None = None) -> None:
        from ipv8.peer import Peer
        from ipv8.peerdiscovery.network import Network
        self.net = net
        self.idx = idx
        self.address = address or (f"1.0.{idx // 200}.{idx % 200 + 1}", 8000 + idx)
        self.raw_endpoint = SimEndpoint(net, self.address, lan_address)
        self.raw_endpoint.open_now()
        self.endpoint: Any = self.raw_endpoint
        self.raw_endpoint6: Any = None
        self.address6: tuple | None = None
        if dispatcher is not None:
            # the endpoint object production code gets from ipv8_service: a DispatcherEndpoint over one interface per
            # address family ("v4": IPv4 only, "dual": IPv4 + IPv6), here with simulated interfaces
            from ipv8.messaging.interfaces.dispatcher.endpoint import DispatcherEndpoint
            disp = DispatcherEndpoint([])
            disp.interfaces = {"UDPIPv4": self.raw_endpoint}
            if dispatcher == "dual":
                self.address6 = (f"2001:db8::{idx + 1:x}", 8000 + idx)
                self.raw_endpoint6 = SimEndpoint(net, self.address6)
                self.raw_endpoint6.open_now()
                disp.interfaces["UDPIPv6"] = self.raw_endpoint6
            disp.interface_order = [i for i in ("UDPIPv4", "UDPIPv6") if i in disp.interfaces]
            disp._preferred_interface = self.raw_endpoint  # noqa: SLF001
            self.endpoint = disp
        if tunnel_endpoint:
            from ipv8.messaging.anonymization.endpoint import TunnelEndpoint
            self.endpoint = TunnelEndpoint(self.endpoint)
        self.network = Network()
        self.key = keypool.key(idx if key_index is None else key_index, curve)
        self.my_peer = Peer(self.key, self.raw_endpoint.lan_address)
        self.overlays: list[Any] = []

    @property
    def overlay(self) -> Any:
        return self.overlays[0]

    def add(self, overlay_cls: type, **settings: Any) -> Any:
        st = overlay_cls.settings_class(my_peer=self.my_peer, endpoint=self.endpoint, network=self.network)
        for k, v in settings.items():
            setattr(st, k, v)
        ov = overlay_cls(st)
        ov.my_estimated_wan = self.address
        ov.my_estimated_lan = self.raw_endpoint.lan_address
        self.overlays.append(ov)
        return ov

    def public_peer(self) -> Any:
        from ipv8.messaging.interfaces.udp.endpoint import UDPv4Address
        from ipv8.peer import Peer
        return Peer(self.key.pub().key_to_bin(), UDPv4Address(*self.address))

    async def unload(self) -> None:
        for ov in self.overlays:
            await ov.unload()
        self.raw_endpoint.close()
        if self.raw_endpoint6 is not None:
            self.raw_endpoint6.close()


def know(a: Node, b: Node, overlay_index: int = 0, flags: list[int] | None = None) -> Any:
    """
    Make ``a`` regard ``b`` as a verified peer of overlay ``overlay_index`` without running discovery.
    Returns a's Peer object for b.
    """
    peer = b.public_peer()
    ov = a.overlays[overlay_index]
    a.network.add_verified_peer(peer)
    peer = a.network.get_verified_by_public_key_bin(peer.public_key.key_to_bin()) or peer
    a.network.discover_services(peer, [ov.community_id])
    if flags is not None and hasattr(ov, "candidates"):
        ov.candidates[peer] = list(flags)
    return peer


def full_mesh(nodes: list[Node], overlay_index: int = 0, flags_of: Any = None) -> None:
    for a in nodes:
        for b in nodes:
            if a is not b:
                fl = None
                if flags_of is not None:
                    fl = flags_of(b)
                know(a, b, overlay_index, fl)


def tunnel_nodes(net: SimNet, n: int, flags: Any = None, hidden: bool = False, first_idx: int = 0,
                 tunnel_endpoint_at: tuple = (), dispatcher: str | None = None, **settings: Any) -> list[Node]:
    """
    ``n`` tunnel nodes, fully meshed as candidates. ``flags``: callable(i) -> set of peer flags (default: all relay
    + both exit flags + speed test).
    """
    from ipv8.messaging.anonymization.community import TunnelCommunity
    from ipv8.messaging.anonymization.tunnel import (PEER_FLAG_EXIT_BT, PEER_FLAG_EXIT_IPV8, PEER_FLAG_RELAY,
                                                    PEER_FLAG_SPEED_TEST)
    allf = {PEER_FLAG_RELAY, PEER_FLAG_EXIT_BT, PEER_FLAG_EXIT_IPV8, PEER_FLAG_SPEED_TEST}
    nodes = []
    for i in range(n):
        node = Node(net, first_idx + i, tunnel_endpoint=i in tunnel_endpoint_at, dispatcher=dispatcher)
        fl = set(flags(i)) if flags is not None else set(allf)
        st = dict(settings)
        cls = TunnelCommunity
        node.flags = fl
        ov = node.add(cls, **st)
        ov.settings.peer_flags = fl
        nodes.append(node)
    full_mesh(nodes, 0, lambda b: sorted(b.flags))
    return nodes
