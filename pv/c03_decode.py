"""
C03, decode level (clauses D1-D3): no buffer is silently over-read.

Helper for ``pv/props/c03_receive.py``. Subjects, value strategies and reference layouts are those of the C02 check
(every discovered ``Serializable`` class, every registered packer name driven through a one-field message, the
harness dataclass payload); the reference is ``pv.refcodec.walk`` over the documented layout.

For a buffer ``buf`` and a start offset the real decoder is called (``Serializer.unpack_serializable``,
``Serializer.unpack``, ``Serializer.unpack_serializable_list`` with ``consume_all`` on and off, for one class and
for the class twice in a row) and judged:

  D1  it raises (any exception = rejection) or returns ``(value, end)`` with ``start <= end <= len(buf)`` and
      ``end == refcodec.walk(layout, buf, start)``; with ``consume_all=True`` an accepted buffer has no bytes behind
      the walker's end; with ``consume_all=False`` the returned remainder is exactly ``buf[walker end:]``,
  D2  when the walker reports ``Truncated`` (a declared length exceeds the bytes present / a fixed field does not
      fit) the decoder MUST raise,
  D3  ``Network.load_snapshot`` never raises, terminates (decoder calls bounded by the snapshot length) and loads no
      more addresses than there are complete entries.

``CellPayload.from_bin`` is judged the same way against its 29-byte header.
"""
from __future__ import annotations

import random

from . import refcodec
from .core import Ctx, HarnessError, Violation, digest, hyp_run

MODES = ["single", "list_all", "list_rest", "pair_all", "pair_rest"]
REWRITES = ("zero", "one", "true-1", "true+1", "max")


RECORD_LIST_CLASSES = ("SimilarityRequestPayload", "SimilarityResponsePayload")


def _c02():
    from .props import c02_roundtrip
    c02_roundtrip.build_registry()
    return c02_roundtrip


# ---- annotating walker (positions of the length prefixes; used for mutation and blame, never for a verdict) --------

class Cut(Exception):
    """
    The structure does not fit: ``fmt`` is the format that was being read, ``buf``/``at`` the buffer and the offset
    at which that field starts.
    """

    def __init__(self, fmt: str, buf: bytes, at: int) -> None:
        super().__init__(fmt)
        self.fmt, self.buf, self.at = fmt, buf, at


def annotate(formats, buf: bytes, start: int, base: int = 0) -> tuple:  # noqa: C901, PLR0912, PLR0915
    """
    (end, [(absolute position, width, value, kind)]) - kind is "len" for length / count prefixes, "type" for the
    address discriminator. ``base`` is the absolute position of ``buf[0]`` (nested messages are walked in a slice).
    """
    marks: list = []
    off = start

    def need(n: int, fmt: str, at: int) -> int:
        if off + n > len(buf):
            raise Cut(fmt, buf, at)
        return off + n

    def prefix(width: int, fmt: str, at: int) -> int:
        nonlocal off
        end = need(width, fmt, at)
        val = int.from_bytes(buf[off:end], "big")
        marks.append((base + off, width, val, "len"))
        off = end
        return val

    def address(fmt: str, domain_ok: bool) -> None:
        nonlocal off
        at = off
        need(1, fmt, at)
        kind = buf[off]
        marks.append((base + off, 1, kind, "type"))
        off += 1
        if kind == refcodec.ADDR_IPV4:
            off = need(6, fmt, at)
        elif kind == refcodec.ADDR_IPV6:
            off = need(18, fmt, at)
        elif kind == refcodec.ADDR_DOMAIN and domain_ok:
            n = prefix(2, fmt, at)
            off = need(n + 2, fmt, at)
        else:
            raise refcodec.Malformed(f"address type {kind}")

    def payload(nested) -> None:
        nonlocal off
        at = off
        n = prefix(2, "payload", at)
        end = need(n, "payload", at)
        if nested is not None:
            _, inner = annotate(list(nested), buf[off:end], 0, base + off)
            marks.extend(inner)
        off = end

    for entry in formats:
        if isinstance(entry, str):
            fmt, at = entry, off
            width = refcodec.fixed_width(fmt)
            if width is not None:
                off = need(width, fmt, at)
            elif fmt == "ip_address":
                address(fmt, False)
            elif fmt == "address":
                address(fmt, True)
            elif fmt == "raw":
                off = len(buf)
            elif fmt in refcodec.VARLEN:
                w, unit, _ = refcodec.VARLEN[fmt]
                n = prefix(w, fmt, at)
                off = need(n * unit, fmt, at)
            elif fmt == "varlenH-list":
                for _ in range(prefix(1, fmt, at)):
                    n = prefix(2, fmt, at)
                    off = need(n, fmt, at)
            elif fmt in refcodec.ARRAYS:
                n = prefix(2, fmt, at)
                off = need(n * refcodec.ARRAYS[fmt], fmt, at)
            elif fmt == "node-list":
                for _ in range(prefix(1, fmt, at)):
                    try:
                        address(fmt, False)
                    except Cut:
                        raise Cut(fmt, buf, at) from None
                    n = prefix(2, fmt, at)
                    off = need(n, fmt, at)
            else:
                raise HarnessError(f"annotate: unknown format {fmt}")
        elif isinstance(entry, list) and len(entry) == 1:
            at = off
            for _ in range(prefix(1, "payload-list", at)):
                payload(entry[0])
        else:
            payload(entry)
    return off, marks


# ---- the oracle ------------------------------------------------------------------------------------------------------

def reference(formats: list, buf: bytes, start: int):
    """
    ("ok", end) | ("trunc", None) | ("malformed", None)
    """
    try:
        return "ok", refcodec.walk(formats, buf, start)
    except refcodec.Truncated:
        return "trunc", None
    except refcodec.Malformed:
        return "malformed", None


def mkcase(kind: str, subj, buf: bytes, start: int, mode: str) -> dict:
    return {"decode": kind, "site": subj.key, "buf": buf, "start": start, "mode": mode}


def blame_site(c02, subj, formats: list, buf: bytes, start: int) -> str:
    """
    The packer that silently accepted the truncation, if it does so on its own; else the class.
    """
    try:
        annotate(formats, buf, start)
    except Cut as cut:
        if cut.fmt in ("payload", "payload-list"):
            return "packer:payload"
        probe = c02.REG.get("packer:" + cut.fmt)
        if probe is not None and probe is not subj:
            try:
                c02.STATE["serializer"].unpack_serializable(probe.cls, cut.buf, cut.at)
            except Exception:  # noqa: BLE001
                return subj.short
            return probe.short
    except Exception:  # noqa: BLE001
        pass
    return subj.short


def judge(c02, subj, buf: bytes, start: int, mode: str, case: dict) -> str:  # noqa: C901, PLR0912
    """
    Decode ``buf`` from ``start`` in the given mode and apply D1 / D2. Returns the reference status.
    """
    ser = c02.STATE["serializer"]
    formats = subj.walk_formats()
    if mode.startswith("pair"):
        formats = formats * 2
    status, w = reference(formats, buf, start)
    try:
        if mode == "single":
            result = ser.unpack_serializable(subj.cls, buf, start)
        elif mode == "api":
            result = ser.unpack(subj.cls.format_list[0], buf, start)
        else:
            classes = [subj.cls, subj.cls] if mode.startswith("pair") else [subj.cls]
            result = ser.unpack_serializable_list(classes, buf, start, consume_all=mode.endswith("_all"))
    except Exception:  # noqa: BLE001
        return status                                   # rejected - always allowed at this level
    if status == "trunc":
        site = blame_site(c02, subj, formats, buf, start)
        raise Violation("D2", site, f"{subj.short} ({mode}): a buffer of {len(buf) - start} byte(s) whose declared "
                                    f"lengths need more than is present is accepted instead of rejected", case)
    if status == "malformed":
        return status                                   # no reference end to compare with
    if mode in ("single", "api"):
        try:
            _, end = result
        except (TypeError, ValueError):
            raise Violation("D1", subj.short, f"decoder returned {type(result).__name__}, not (value, end)",
                            case) from None
        if type(end) is not int or not start <= end <= len(buf):
            raise Violation("D1", subj.short, f"({mode}) reported end {end!r} is outside the buffer "
                                              f"[{start}, {len(buf)}]", case)
        if end != w:
            raise Violation("D1", subj.short, f"({mode}) reported end {end}, the declared structure ends at {w}", case)
        if mode == "single" and subj.cls.__name__ in RECORD_LIST_CLASSES:
            # these messages carry a list of fixed-size records in a trailing byte string and split it themselves: an
            # accepted value stands for every byte that was consumed (a cut inside a record is refused or kept, not lost)
            try:
                again = ser.pack_serializable(result[0])
            except Exception:  # noqa: BLE001
                again = None
            if again is not None and len(again) != end - start:
                raise Violation("D2", subj.short + ":records", f"{subj.short}: {end - start} byte(s) were accepted, the decoded "
                                                               f"value stands for {len(again)} of them (a partial trailing "
                                                               f"record was silently dropped)", case)
    elif mode.endswith("_all"):
        if w != len(buf):
            raise Violation("D1", "unpack_serializable_list", f"{subj.short}: consume_all=True accepts a buffer with "
                                                              f"{len(buf) - w} byte(s) behind the message", case)
    else:
        rest = result[-1]
        if not isinstance(rest, (bytes, bytearray, memoryview)) or bytes(rest) != buf[w:]:
            raise Violation("D1", "unpack_serializable_list", f"{subj.short}: consume_all=False returns a remainder "
                                                              f"of {len(rest) if hasattr(rest, '__len__') else '?'} "
                                                              f"byte(s), {len(buf) - w} follow the message", case)
    return status


def evaluate(ctx: Ctx | None, c02, case: dict, nt_hint: bool = False) -> None:
    subj = c02.REG.get(case["site"])
    if subj is None:
        raise HarnessError(f"unknown subject {case['site']}")
    status = "?"
    try:
        status = judge(c02, subj, case["buf"], case["start"], case["mode"], case)
    except Violation:
        status = "trunc"
        raise
    finally:
        if ctx is not None:
            ctx.case(digest((case["site"], case["buf"], case["start"], case["mode"])),
                     nt_hint or status == "trunc", cls="decode:" + case["decode"],
                     sample={"decode": case["decode"], "subject": subj.short, "buf": case["buf"],
                             "start": case["start"], "mode": case["mode"]} if len(case["buf"]) <= 64 else None)


# ---- generators ------------------------------------------------------------------------------------------------------

def modes_for(subj) -> list:
    return MODES + (["api"] if subj.is_probe and subj.cls.nargs == 1 else [])


def rewrite_values(width: int, true: int) -> list:
    top = (1 << (8 * width)) - 1
    out = []
    for v in (0, 1, true - 1, true + 1, top):
        if 0 <= v <= top and v != true and v not in out:
            out.append(v)
    return out


def garbage(rng: random.Random, n: int) -> bytes:
    return bytes(rng.randrange(256) for _ in range(n))


def enumerate_subject(ctx: Ctx, c02, subj, n_values: int, all_modes_every: int) -> None:
    """
    Index-enumerated part for one subject: all truncations, all prefix rewrites, trailing bytes.
    """
    rng = random.Random(digest((ctx.seed, subj.key, "c03")))
    formats = subj.walk_formats()
    modes = modes_for(subj)

    def run(kind: str, buf: bytes, start: int, mode: str, nt: bool) -> None:
        try:
            evaluate(ctx, c02, mkcase(kind, subj, buf, start, mode), nt)
        except Violation as v:
            ctx.violation(v)

    for i in range(n_values):
        plain = subj.det_value(rng)
        enc = subj.ref(plain)
        lead = garbage(rng, 1 + i % 7)
        # every truncation (k == len(enc) is the complete message: not non-trivial, but a useful sanity point)
        for k in range(len(enc) + 1):
            cut = enc[:k]
            strict = k < len(enc)
            for j, mode in enumerate(modes):
                if mode != "single" and (k + j) % all_modes_every:
                    continue
                run("truncation", cut, 0, mode, strict)
                run("truncation", lead + cut, len(lead), mode, strict)
        # every length prefix rewritten
        try:
            end, marks = annotate(formats, enc, 0)
        except (Cut, refcodec.Malformed) as e:
            raise HarnessError(f"annotate rejects the reference encoding of {subj.key}: {e}") from e
        if end != len(enc) and not subj.ends_raw:
            raise HarnessError(f"annotate ends at {end}, reference encoding of {subj.key} has {len(enc)} bytes")
        for pos, width, true, kind in marks:
            values = rewrite_values(width, true) if kind == "len" else [v for v in (0, 1, 2, 3, 4, 255) if v != true]
            for v in values:
                mutated = enc[:pos] + v.to_bytes(width, "big") + enc[pos + width:]
                for mode in modes:
                    run("prefix", mutated, 0, mode, True)
                run("prefix", lead + mutated, len(lead), "single", True)
                run("prefix", mutated + lead, 0, "list_all", True)
        # bytes behind a complete message
        for tail in (b"\x00", lead):
            for mode in modes:
                run("trailing", enc + tail, 0, mode, False)
            run("trailing", lead + enc + tail, len(lead), "list_all", False)


def hyp_parts(ctx: Ctx, c02, mine: list, n_random: int, n_mutated: int) -> None:
    from hypothesis import strategies as st
    if not mine:
        return
    site = st.sampled_from(mine)

    def mode_of(key: str):
        return st.sampled_from(modes_for(c02.REG[key]))

    rnd = site.flatmap(lambda k: st.tuples(st.just(k), st.binary(max_size=96), st.integers(0, 8), mode_of(k)))

    def body_random(x) -> None:
        key, data, start, mode = x
        start = min(start, len(data))
        evaluate(ctx, c02, mkcase("random", c02.REG[key], data, start, mode))

    hyp_run(ctx, "decode-random", rnd, body_random, n_random)

    def mutations(enc_len: int):
        pos = st.integers(0, max(enc_len, 1))
        return st.lists(st.one_of(
            st.tuples(st.just("cut"), pos),
            st.tuples(st.just("set"), pos, st.integers(0, 255)),
            st.tuples(st.just("del"), pos, st.integers(1, 8)),
            st.tuples(st.just("ins"), pos, st.binary(min_size=1, max_size=8)),
            st.tuples(st.just("len"), st.integers(0, 64), st.integers(0, 2 ** 32 - 1)),
            st.tuples(st.just("app"), st.binary(min_size=1, max_size=6))), min_size=1, max_size=3)

    mut = site.flatmap(lambda k: st.tuples(st.just(k), c02.REG[k].strategy(False), mutations(96),
                                           st.binary(max_size=6), mode_of(k)))

    def body_mutated(x) -> None:
        key, plain, muts, lead, mode = x
        subj = c02.REG[key]
        enc = subj.ref(plain)
        if len(enc) > 4096:
            enc = enc[:4096]
        marks = None
        buf = enc
        for m in muts:
            if m[0] == "cut":
                buf = buf[:m[1] % (len(buf) + 1)]
            elif m[0] == "set" and buf:
                p = m[1] % len(buf)
                buf = buf[:p] + bytes([m[2]]) + buf[p + 1:]
            elif m[0] == "del" and buf:
                p = m[1] % len(buf)
                buf = buf[:p] + buf[p + m[2]:]
            elif m[0] == "ins":
                p = m[1] % (len(buf) + 1)
                buf = buf[:p] + m[2] + buf[p:]
            elif m[0] == "app":
                buf = buf + m[1]
            elif m[0] == "len":
                if marks is None:
                    try:
                        marks = annotate(subj.walk_formats(), enc, 0)[1]
                    except (Cut, refcodec.Malformed):
                        marks = []
                lens = [mk for mk in marks if mk[3] == "len" and mk[0] + mk[1] <= len(buf)]
                if lens:
                    pos, width, _, _ = lens[m[1] % len(lens)]
                    buf = buf[:pos] + (m[2] % (1 << (8 * width))).to_bytes(width, "big") + buf[pos + width:]
        evaluate(ctx, c02, mkcase("mutated", subj, lead + buf, len(lead), mode))

    hyp_run(ctx, "decode-mutated", mut, body_mutated, n_mutated)


# ---- CellPayload.from_bin --------------------------------------------------------------------------------------------

def judge_cell(case: dict) -> bool:
    """
    Returns True when the packet is shorter than the 29-byte header (the non-trivial class).
    """
    from ipv8.messaging.anonymization.payload import CellPayload
    packet = case["buf"]
    short = len(packet) < 29
    try:
        cell = CellPayload.from_bin(packet)
    except Exception:  # noqa: BLE001
        return short
    if short:
        raise Violation("D2", "CellPayload.from_bin", f"a cell of {len(packet)} bytes (header needs 29) is accepted",
                        case)
    want = (int.from_bytes(packet[23:27], "big"), packet[29:])
    if (cell.circuit_id, bytes(cell.message)) != want:
        raise Violation("D1", "CellPayload.from_bin", "circuit id / message are not the bytes at 23..27 / 29..", case)
    return short


def cells(ctx: Ctx, thorough: bool) -> None:
    rng = random.Random(digest((ctx.seed, "cells")))

    def run(buf: bytes) -> None:
        case = {"decode": "cell", "buf": buf}
        nt = len(buf) < 29
        try:
            judge_cell(case)
        except Violation as v:
            ctx.violation(v)
        ctx.case(digest(("cell", buf)), nt, cls="decode:cell",
                 sample={"decode": "cell", "buf": buf} if len(buf) < 40 else None)

    for i in range(40 if thorough else 8):
        cell = garbage(rng, 22) + b"\x00" + refcodec.encode("I", rng.randrange(2 ** 32)) + \
            bytes([rng.randrange(2), rng.randrange(2)]) + garbage(rng, [0, 1, 5, 40][i % 4])
        for k in range(len(cell) + 1):
            run(cell[:k])
    from hypothesis import strategies as st

    def body(buf: bytes) -> None:
        case = {"decode": "cell", "buf": buf}
        try:
            judge_cell(case)
        finally:
            ctx.case(digest(("cell", buf)), len(buf) < 29, cls="decode:cell")

    hyp_run(ctx, "decode-cell", st.binary(max_size=64), body, 2000 if thorough else 300)


# ---- Network.load_snapshot ---------------------------------------------------------------------------------------------

class NoProgress(BaseException):
    """
    Raised by the counting proxy (BaseException: must not be swallowed by the loader's own ``except Exception``).
    """


class CountingSerializer:
    """
    Stands in for ``default_serializer`` inside ``ipv8.peerdiscovery.network`` while a snapshot is loaded.
    """

    def __init__(self, real, limit: int) -> None:
        self.real, self.limit, self.calls = real, limit, 0

    def unpack(self, *args, **kwargs):
        self.calls += 1
        if self.calls > self.limit:
            raise NoProgress
        return self.real.unpack(*args, **kwargs)

    def __getattr__(self, name: str):
        return getattr(self.real, name)


def complete_entries(snapshot: bytes) -> int:
    n, off = 0, 0
    while off < len(snapshot):
        try:
            off = refcodec.walk(["address"], snapshot, off)
        except (refcodec.Truncated, refcodec.Malformed):
            break
        n += 1
    return n


def judge_snapshot(case: dict) -> bool:
    """
    D3. Returns True when the snapshot is damaged (ends inside an entry or holds an undefined entry).
    """
    from ipv8.peerdiscovery import network as netmod
    snapshot = case["buf"]
    whole = complete_entries(snapshot)
    net = netmod.Network()
    real = netmod.default_serializer
    proxy = CountingSerializer(real, len(snapshot) + 2)
    netmod.default_serializer = proxy
    try:
        net.load_snapshot(snapshot)
    except NoProgress:
        raise Violation("D3", "Network.load_snapshot", f"does not terminate: more than {proxy.limit} decode attempts "
                                                       f"for a snapshot of {len(snapshot)} bytes", case) from None
    except Exception as e:  # noqa: BLE001
        raise Violation("D3", "Network.load_snapshot", f"raises {type(e).__name__}: {e}", case) from None
    finally:
        netmod.default_serializer = real
    loaded = len(net.get_walkable_addresses())
    if loaded > whole:
        raise Violation("D2", "Network.load_snapshot", f"{loaded} addresses loaded from a snapshot that holds only "
                                                       f"{whole} complete entries", case)
    damaged = True
    off = 0
    try:
        for _ in range(whole):
            off = refcodec.walk(["address"], snapshot, off)
        damaged = off != len(snapshot)
    except (refcodec.Truncated, refcodec.Malformed):
        pass
    return damaged


def snapshots(ctx: Ctx, c02, thorough: bool) -> None:
    rng = random.Random(digest((ctx.seed, "snapshots")))

    def run(kind: str, buf: bytes) -> None:
        case = {"decode": "snapshot", "buf": buf}
        nt = False
        try:
            nt = judge_snapshot(case)
        except Violation as v:
            nt = True
            ctx.violation(v)
        ctx.case(digest(("snapshot", buf)), nt, cls="decode:snapshot:" + kind,
                 sample={"decode": "snapshot", "buf": buf} if len(buf) < 48 else None)

    for i in range(30 if thorough else 6):
        entries = [refcodec.encode("address", c02.r_addr(rng, "address")) for _ in range(1 + i % 5)]
        snap = b"".join(entries)
        for k in range(len(snap) + 1):
            run("truncation", snap[:k])
        _, marks = annotate(["address"] * len(entries), snap, 0)
        for pos, width, true, kind in marks:
            values = rewrite_values(width, true) if kind == "len" else [v for v in (0, 1, 2, 3, 4, 255) if v != true]
            for v in values:
                run("prefix", snap[:pos] + v.to_bytes(width, "big") + snap[pos + width:])
    from hypothesis import strategies as st
    entry = st.one_of(c02.s_ipv4(), c02.s_ipv6(), c02.s_domain()).map(lambda a: refcodec.encode("address", a))
    strat = st.one_of(
        st.binary(max_size=80),
        st.tuples(st.lists(entry, max_size=5).map(b"".join), st.integers(0, 400), st.integers(0, 255),
                  st.binary(max_size=5)).map(
            lambda t: (t[0][:t[1] % (len(t[0]) + 1)] + bytes([t[2]]) + t[0][t[1] % (len(t[0]) + 1) + 1:] + t[3])))

    def body(buf: bytes) -> None:
        nt = True
        try:
            nt = judge_snapshot({"decode": "snapshot", "buf": buf})
        finally:
            ctx.case(digest(("snapshot", buf)), nt, cls="decode:snapshot:random")

    hyp_run(ctx, "decode-snapshot", strat, body, 3000 if thorough else 400)


# ---- entry points ----------------------------------------------------------------------------------------------------------

def run_decode(ctx: Ctx, shard: int, nshards: int, thorough: bool) -> None:
    """
    Slice ``shard`` of ``nshards`` of the decode-level search (call inside a shard worker).
    """
    c02 = _c02()
    sites = sorted(c02.REG)
    mine = sites[shard::nshards]
    for key in mine:
        enumerate_subject(ctx, c02, c02.REG[key], 16 if thorough else 6, 1 if thorough else 2)
    hyp_parts(ctx, c02, mine, 500 * len(mine) if thorough else 120 * len(mine),
              800 * len(mine) if thorough else 180 * len(mine))
    if shard == 1 % nshards:
        cells(ctx, thorough)
    if shard == 2 % nshards:
        snapshots(ctx, c02, thorough)
    ctx.note("decode_subjects", len(mine))


def replay_decode(case: dict) -> None:
    """
    Re-run one saved case ({"decode": kind, ...}); raises Violation if it still fails.
    """
    kind = case["decode"]
    if kind == "cell":
        judge_cell(case)
    elif kind == "snapshot":
        judge_snapshot(case)
    else:
        evaluate(None, _c02(), case)
