"""
Reference verdict on the authentication of a datagram, computed from the bytes alone with the signature primitive of
the Rust extension (not through ipv8.keyvault, which is code under test):

    valid(x)  <=>  x[23:25] is a big-endian length n, x[25:25+n] loads as a public key K, and the last siglen(K)
                   bytes of x are K's signature over everything before them (prefix, message id, payloads).
"""
from __future__ import annotations

import struct


def ref_valid(data: bytes) -> tuple[bool, bytes | None, int]:
    """
    (signature valid, embedded public key bytes or None, signature length)
    """
    from ipv8_rust_tunnels import PublicKey
    if len(data) < 25:
        return False, None, 0
    n, = struct.unpack_from(">H", data, 23)
    key_bin = data[25:25 + n]
    if len(key_bin) != n or n == 0:
        return False, None, 0
    try:
        key = PublicKey(key_bin)
        siglen = key.get_signature_length()
    except BaseException:  # noqa: BLE001
        return False, key_bin, 0
    if len(data) < 25 + n + siglen:
        return False, key_bin, siglen
    try:
        ok = bool(key.verify(data[-siglen:], data[:-siglen]))
    except BaseException:  # noqa: BLE001
        ok = False
    return ok, key_bin, siglen


def sign_with(private_key_bin: bytes, body: bytes) -> bytes:
    """
    body + signature made with a pool key (what an attacker owning that key can legitimately produce).
    """
    from ipv8_rust_tunnels import PrivateKey
    return body + PrivateKey(private_key_bin).signature(body)
