"""
In-process network owned by the harness. Every datagram a node sends becomes a ``Flight`` in an explicit
in-flight list; a policy (FIFO by default, or the harness step by step) decides what is delivered, dropped,
duplicated, delayed, altered or spoofed. Optional NAT boxes enforce mapping and filtering.

``SimEndpoint`` implements only the transport side of ``Endpoint``; listener registration, prefix demultiplexing
and ``_deliver_later`` are the production code.
"""
from __future__ import annotations

import asyncio
from dataclasses import dataclass, field
from typing import Any, Callable

from ipv8.messaging.interfaces.endpoint import Endpoint
from ipv8.messaging.interfaces.udp.endpoint import UDPv4Address, UDPv6Address


@dataclass
class Flight:
    seq: int
    src: tuple            # address as seen by the receiver (after NAT translation)
    dst: tuple
    data: bytes
    t: float = 0.0
    origin: Any = None    # sending SimEndpoint / transport (None for injected)
    note: str = ""
    real_src: tuple | None = None   # private address of the sender before NAT
    segment: Any = None   # NatBox whose LAN segment carries this flight directly (no translation), else None
    src_box: Any = None   # NatBox the sender sits behind, if any

    def key(self) -> tuple:
        return (self.src, self.dst, self.data)


def _norm(addr: tuple) -> tuple:
    return (addr[0], addr[1])


class SimEndpoint(Endpoint):
    """
    Endpoint of one simulated node.
    """

    def __init__(self, net: "SimNet", address: tuple, lan_address: tuple | None = None) -> None:
        super().__init__()
        self.net = net
        self.wan_address = address
        self.lan_address = lan_address or address
        self._open = False
        self.sent: list[Flight] = []
        self.received: list[tuple] = []
        self.escaped: list[tuple] = []   # exceptions that left notify_listeners
        self.bytes_up = 0
        self.bytes_down = 0
        net.attach(self)

    # Endpoint interface ---------------------------------------------------------------------------------
    def assert_open(self) -> None:
        assert self._open

    def is_open(self) -> bool:
        return self._open

    def get_address(self) -> tuple:
        return self.lan_address

    def send(self, socket_address: tuple, packet: bytes) -> None:
        if not self._open:
            return
        self.bytes_up += len(packet)
        fl = self.net.send(self, _norm(socket_address), bytes(packet))
        if fl is not None:
            self.sent.append(fl)

    async def open(self) -> bool:
        self._open = True
        return True

    def open_now(self) -> None:
        self._open = True

    def close(self, timeout: float = 0.0) -> None:
        self._open = False

    def reset_byte_counters(self) -> None:
        self.bytes_up = self.bytes_down = 0

    # delivery -------------------------------------------------------------------------------------------
    def deliver(self, src: tuple, data: bytes) -> None:
        """
        Hand a datagram to the production receive path, wrapped the way the UDP endpoints wrap addresses.
        """
        if not self._open:
            return
        self.bytes_down += len(data)
        self.received.append((src, data))
        addr = UDPv6Address(*src) if ":" in src[0] else UDPv4Address(*src)
        try:
            self.notify_listeners((addr, data))
        except Exception as e:  # noqa: BLE001 - recorded, judged by the checks (C03/C04 "no exception leaves")
            self.escaped.append((src, data, e))
            self.net.escaped.append((self, src, data, e))


class NatBox:
    """
    Endpoint-independent mapping; filtering: "full" (none), "addr" (address-restricted), "port" (port-restricted).
    No hair-pinning. Hosts behind the box have private addresses on ``subnet``.
    """

    def __init__(self, net: "SimNet", public_ip: str, kind: str, pool: tuple = ()) -> None:
        self.net = net
        self.public_ip = public_ip
        self.pool = (public_ip, *pool)          # external addresses of the box; hosts are spread over them in turn
        self.kind = kind
        self.map_out: dict[tuple, tuple] = {}      # private addr -> public addr
        self.map_in: dict[tuple, tuple] = {}       # public addr -> private addr
        self.contacted: dict[tuple, set] = {}      # public addr -> set of remote addrs (or ips) contacted
        self.next_port = 20000
        self.dropped: list[Flight] = []
        self.inside: set[tuple] = set()
        self.hosts: dict[tuple, Any] = {}          # private addr -> endpoint (two boxes may number their LANs alike)

    def add_host(self, private_addr: tuple, ep: Any = None) -> None:
        self.inside.add(private_addr)
        self.hosts[private_addr] = ep

    def outbound(self, private_src: tuple, dst: tuple) -> tuple:
        pub = self.map_out.get(private_src)
        if pub is None:
            self.next_port += 1
            hosts = sorted(self.inside)
            ip = self.pool[hosts.index(private_src) % len(self.pool)] if private_src in self.inside else self.public_ip
            pub = (ip, self.next_port)
            self.map_out[private_src] = pub
            self.map_in[pub] = private_src
        self.contacted.setdefault(pub, set()).add(dst)
        return pub

    def inbound(self, fl: Flight) -> tuple | None:
        """
        Translate the public destination of an incoming flight to the private host, or None if filtered.
        """
        priv = self.map_in.get(fl.dst)
        if priv is None:
            return None
        seen = self.contacted.get(fl.dst, set())
        if self.kind == "full":
            return priv
        if self.kind == "addr":
            return priv if any(r[0] == fl.src[0] for r in seen) else None
        if self.kind == "port":
            return priv if fl.src in seen else None
        raise AssertionError(self.kind)


class SimNet:
    """
    The network.
    """

    def __init__(self, loop: asyncio.AbstractEventLoop | None = None, auto: bool = True) -> None:
        self.loop = loop
        self.auto = auto
        self.nodes: dict[tuple, Any] = {}         # address -> SimEndpoint or transport adapter
        self.inflight: list[Flight] = []
        self.log: list[Flight] = []
        self.delivered: list[Flight] = []
        self.lost: list[Flight] = []               # sent to an address nobody owns / filtered
        self.escaped: list[tuple] = []
        self.seq = 0
        self.on_send: Callable[[Flight], list[Flight] | None] | None = None   # fault hook: may return replacements
        self.nat_of: dict[tuple, NatBox] = {}      # private address -> box (last host registered with that address)
        self.box_of_ep: dict[int, NatBox] = {}     # id(endpoint) -> box
        self.nat_by_ip: dict[str, NatBox] = {}
        self._pump_scheduled = False
        self.single_step = False

    def now(self) -> float:
        return self.loop.time() if self.loop is not None else 0.0

    def attach(self, ep: Any, address: tuple | None = None) -> None:
        self.nodes[_norm(address or ep.wan_address)] = ep

    def detach(self, address: tuple) -> None:
        self.nodes.pop(_norm(address), None)

    def add_nat(self, box: NatBox) -> None:
        for ip in box.pool:
            self.nat_by_ip[ip] = box

    def put_behind(self, ep: SimEndpoint, box: NatBox) -> None:
        addr = _norm(ep.wan_address)
        self.nat_of[addr] = box
        self.box_of_ep[id(ep)] = box
        box.add_host(addr, ep)
        if self.nodes.get(addr) is ep:
            del self.nodes[addr]                    # reachable through its box (or its LAN segment) only

    def box_of(self, ep: Any) -> NatBox | None:
        return self.box_of_ep.get(id(ep))

    # sending ---------------------------------------------------------------------------------------------
    def send(self, origin: Any, dst: tuple, data: bytes, src: tuple | None = None) -> Flight | None:
        self.seq += 1
        real = _norm(src or origin.wan_address)
        seen_src = real
        box = self.box_of_ep.get(id(origin))
        segment = None
        if box is not None:
            if _norm(dst) in box.inside:
                seen_src = real                      # same LAN segment: direct
                segment = box
            else:
                seen_src = box.outbound(real, _norm(dst))
        fl = Flight(self.seq, seen_src, _norm(dst), data, self.now(), origin, real_src=real, segment=segment,
                    src_box=box)
        self.log.append(fl)
        out = [fl]
        if self.on_send is not None:
            repl = self.on_send(fl)
            if repl is not None:
                out = repl
        for f in out:
            self.inflight.append(f)
        if self.auto and self.loop is not None and not self._pump_scheduled and self.inflight:
            self._pump_scheduled = True
            self.loop.call_soon(self._pump)
        return fl

    def inject(self, src: tuple, dst: tuple, data: bytes, note: str = "injected") -> Flight:
        """
        A datagram from an arbitrary (possibly spoofed) source, bypassing hooks and NAT.
        """
        self.seq += 1
        fl = Flight(self.seq, _norm(src), _norm(dst), data, self.now(), None, note)
        self.log.append(fl)
        self.inflight.append(fl)
        if self.auto and self.loop is not None and not self._pump_scheduled:
            self._pump_scheduled = True
            self.loop.call_soon(self._pump)
        return fl

    # delivery --------------------------------------------------------------------------------------------
    def _pump(self) -> None:
        self._pump_scheduled = False
        if self.single_step:
            # one delivery per loop iteration: other tasks (e.g. an unload requested by a check) can run in between
            batch, self.inflight = self.inflight[:1], self.inflight[1:]
        else:
            batch, self.inflight = self.inflight, []
        for fl in batch:
            self.deliver(fl)
        if self.inflight and self.auto and self.loop is not None and not self._pump_scheduled:
            self._pump_scheduled = True
            self.loop.call_soon(self._pump)

    def deliver(self, fl: Flight) -> bool:
        """
        Deliver one flight now. Returns False if nobody received it.
        """
        if fl in self.inflight:
            self.inflight.remove(fl)
        dst = fl.dst
        box = self.nat_by_ip.get(dst[0])
        if fl.segment is not None:
            node = fl.segment.hosts.get(dst)         # over the sender's own LAN segment
        elif box is not None:
            if fl.src_box is box:
                box.dropped.append(fl)               # no hair-pinning
                self.lost.append(fl)
                return False
            priv = box.inbound(fl)
            if priv is None:
                box.dropped.append(fl)
                self.lost.append(fl)
                return False
            dst = priv
            node = box.hosts.get(priv)
        else:
            # public hosts only: a private address is reachable from its own LAN segment and nowhere else
            node = self.nodes.get(dst)
        if node is None:
            self.lost.append(fl)
            return False
        self.delivered.append(fl)
        node.deliver(fl.src, fl.data)
        return True

    def drop(self, fl: Flight) -> None:
        if fl in self.inflight:
            self.inflight.remove(fl)
        self.lost.append(fl)

    async def settle(self, max_rounds: int = 10000) -> None:
        """
        Let the loop run until no datagram is in flight and no callback is immediately runnable.
        """
        for _ in range(max_rounds):
            await asyncio.sleep(0)
            if not self.inflight and not self._pump_scheduled:
                await asyncio.sleep(0)
                if not self.inflight and not self._pump_scheduled:
                    return
        raise RuntimeError("network does not settle")


class TransportAdapter:
    """
    Gives a RecordingTransport (e.g. an exit socket) an address on the SimNet: what it sends to a simulated node is
    delivered there, answers come back through ``protocol.datagram_received``.
    """

    def __init__(self, net: SimNet, transport: Any, address: tuple) -> None:
        self.net = net
        self.transport = transport
        self.wan_address = address
        net.attach(self, address)
        transport.sink = self._on_sendto

    def _on_sendto(self, transport: Any, data: bytes, addr: tuple) -> None:
        if addr is not None and _norm(addr) in self.net.nodes:
            self.net.send(self, _norm(addr), data)

    def deliver(self, src: tuple, data: bytes) -> None:
        self.transport.inject(data, src)
