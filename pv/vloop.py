"""
Virtual time: an asyncio event loop whose clock only moves when nothing is runnable, and then jumps straight to
the next timer. ``time.time`` (and every ``time`` name imported into an ``ipv8.*`` module) reads the same clock
while a case runs. Datagram endpoints created through the loop are recording transports, executors run inline.
"""
from __future__ import annotations

import asyncio
import selectors
import sys
import time as _time_module
from contextlib import contextmanager
from typing import Any, Callable

from .core import HarnessError

_REAL_TIME = _time_module.time
EPOCH = 1_700_000_000.0


class Deadlock(HarnessError):
    """
    The loop has nothing runnable and nothing scheduled, yet the main coroutine is not finished.
    """


class _VSelector:
    """
    Wraps a real selector: never blocks; an idle wait advances the virtual clock instead.
    """

    def __init__(self, loop: "VirtualLoop") -> None:
        self._sel = selectors.DefaultSelector()
        self._loop = loop

    def select(self, timeout: float | None = None) -> list:
        events = self._sel.select(0)
        if events:
            return events
        if timeout is None:
            if self._loop._ready or self._loop._scheduled:
                return events
            raise Deadlock("virtual loop is idle with nothing scheduled")
        if timeout > 0:
            self._loop._advance(timeout)
        return events

    def __getattr__(self, name: str) -> Any:
        return getattr(self._sel, name)


class RecordingTransport(asyncio.DatagramTransport):
    """
    Stand-in for a UDP socket created with ``loop.create_datagram_endpoint``.
    """

    def __init__(self, loop: "VirtualLoop", protocol: asyncio.DatagramProtocol, local_addr: tuple) -> None:
        super().__init__()
        self.loop = loop
        self.protocol = protocol
        self.local_addr = local_addr
        self.sent: list[tuple[bytes, tuple]] = []
        self.closed = False
        self.sink: Callable[[Any, bytes, tuple], None] | None = None

    def sendto(self, data: bytes, addr: tuple | None = None) -> None:
        if self.closed:
            return
        self.sent.append((bytes(data), addr))
        if self.sink is not None:
            self.sink(self, bytes(data), addr)

    def inject(self, data: bytes, addr: tuple) -> None:
        """
        A datagram arrives from the outside world.
        """
        if not self.closed:
            if self.loop.transport_escaped is None:
                self.protocol.datagram_received(data, addr)
                return
            try:
                self.protocol.datagram_received(data, addr)
            except Exception as e:  # noqa: BLE001 - recorded for the check that asked for it (C03: outside sockets)
                self.loop.transport_escaped.append((self, bytes(data), addr, e))

    def get_extra_info(self, name: str, default: Any = None) -> Any:
        if name == "sockname":
            return self.local_addr
        if name == "socket":
            return _FakeSocket(self.local_addr)
        return default

    def close(self) -> None:
        if not self.closed:
            self.closed = True
            self.loop.call_soon(self.protocol.connection_lost, None)

    def is_closing(self) -> bool:
        return self.closed

    def abort(self) -> None:
        self.close()


class _FakeSocket:
    def __init__(self, addr: tuple) -> None:
        self._addr = addr

    def getsockname(self) -> tuple:
        return self._addr

    def setsockopt(self, *a: Any) -> None:
        pass

    def fileno(self) -> int:
        return -1


class VirtualLoop(asyncio.SelectorEventLoop):
    """
    See module docstring.
    """

    def __init__(self) -> None:
        super().__init__(selector=_VSelector(self))  # type: ignore[arg-type]
        self._vnow = EPOCH
        # the ulp of a double near EPOCH is 2.4e-7: the stock 1e-9 resolution would never let a timer fire
        self._clock_resolution = 1e-6
        self.transports: list[RecordingTransport] = []
        self.escaped: list[dict] = []
        self.next_port = 40000
        self.hosts: dict[str, str] = {}
        self.on_transport: Callable[[RecordingTransport], None] | None = None
        self.transport_escaped: list | None = None    # a list: exceptions leaving datagram_received are recorded there
        self.open_latency: dict = {}      # local host ("0.0.0.0" / "::") -> virtual seconds it takes to open a socket there
        self.ipv6_available = True      # False: binding a "::" socket fails with EAFNOSUPPORT (host without IPv6)
        self.set_exception_handler(self._on_exception)

    def time(self) -> float:
        return self._vnow

    def _advance(self, timeout: float) -> None:
        target = self._vnow + timeout
        if self._scheduled:
            when = self._scheduled[0]._when
            if abs(when - target) < 1e-6 or (self._vnow < when < target):
                target = when
        self._vnow = max(self._vnow, target)

    def _on_exception(self, loop: Any, context: dict) -> None:
        self.escaped.append(context)

    async def create_datagram_endpoint(self, protocol_factory: Callable, local_addr: tuple | None = None,
                                       remote_addr: tuple | None = None, **kwargs: Any) -> tuple:
        # like a real loop, opening a socket suspends the caller twice: while the local address is resolved and while
        # waiting for connection_made; a cancellation may arrive at either point (at the second the socket is closed)
        host, port = (local_addr or ("0.0.0.0", 0))[:2]
        await asyncio.sleep(self.open_latency.get(host, 0))
        protocol = protocol_factory()
        if ":" in host and not self.ipv6_available:
            raise OSError(97, "Address family not supported by protocol")
        if not port:
            self.next_port += 1
            port = self.next_port
        transport = RecordingTransport(self, protocol, (host, port))
        self.transports.append(transport)
        if self.on_transport is not None:
            self.on_transport(transport)
        self.call_soon(protocol.connection_made, transport)
        try:
            await asyncio.sleep(0)
        except BaseException:
            transport.close()
            raise
        return transport, protocol

    def run_in_executor(self, executor: Any, func: Callable, *args: Any) -> asyncio.Future:  # type: ignore[override]
        fut = self.create_future()
        try:
            fut.set_result(func(*args))
        except Exception as e:  # noqa: BLE001
            fut.set_exception(e)
        return fut

    async def getaddrinfo(self, host: Any, port: Any, **kwargs: Any) -> list:  # type: ignore[override]
        import socket
        h = host.decode() if isinstance(host, bytes) else host
        ip = self.hosts.get(h, h)
        try:
            socket.inet_aton(ip)
        except OSError as e:
            raise socket.gaierror(f"virtual resolver: unknown host {h}") from e
        return [(socket.AF_INET, socket.SOCK_DGRAM, 17, "", (ip, port))]


def _patch_time(fn: Callable[[], float]) -> list[tuple[Any, str, Any]]:
    undo = [(_time_module, "time", _time_module.time)]
    _time_module.time = fn  # type: ignore[assignment]
    for name, mod in list(sys.modules.items()):
        if mod is None or not (name == "ipv8" or name.startswith("ipv8.")):
            continue
        cur = mod.__dict__.get("time")
        if cur is _REAL_TIME or getattr(cur, "_pv_virtual", False):
            undo.append((mod, "time", cur))
            mod.__dict__["time"] = fn
    return undo


@contextmanager
def virtual_time():
    """
    Context manager: a fresh VirtualLoop installed as the current loop, clocks patched, LAN probing disabled.
    """
    loop = VirtualLoop()

    def vtime() -> float:
        return loop._vnow
    vtime._pv_virtual = True  # type: ignore[attr-defined]
    undo = _patch_time(vtime)
    import socket
    real_gethostbyname = socket.gethostbyname

    def fast_fail(host: str) -> str:
        try:
            socket.inet_aton(host)
            return host
        except OSError:
            raise socket.gaierror("no DNS inside a case") from None
    socket.gethostbyname = fast_fail  # type: ignore[assignment]
    saved_providers = None
    try:
        from ipv8.messaging.interfaces.lan_addresses import interfaces as lan
        provs = lan.get_providers()
        saved_providers = (provs, list(provs))
        provs.clear()
    except Exception:  # noqa: BLE001
        saved_providers = None
    asyncio.set_event_loop(loop)
    try:
        yield loop
    finally:
        try:
            pending = [t for t in asyncio.all_tasks(loop) if not t.done()]
            for t in pending:
                t.cancel()
            if pending:
                try:
                    loop.run_until_complete(asyncio.gather(*pending, return_exceptions=True))
                except BaseException:  # noqa: BLE001
                    pass
        finally:
            asyncio.set_event_loop(None)
            loop.close()
            for obj, name, val in undo:
                setattr(obj, name, val)
            socket.gethostbyname = real_gethostbyname  # type: ignore[assignment]
            if saved_providers is not None:
                saved_providers[0][:] = saved_providers[1]


def run(main: Callable[[VirtualLoop], Any]) -> Any:
    """
    Run ``await main(loop)`` under virtual time and return its result.
    """
    with virtual_time() as loop:
        return loop.run_until_complete(main(loop))
