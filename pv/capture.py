"""
Scripted honest protocol runs, one per shipped overlay class, on the simulator. They feed
  * C01 / C03: a corpus of valid datagrams, regenerated from the working tree on every run (never committed),
  * C11: activity that an unload request can interrupt at every delivery.

A scenario is ``async def scenario(loop, env)``; it creates nodes through ``env`` (so that the caller can hook the
network first), marks the node under observation with ``env.target(node, overlay)`` and then drives honest traffic.
"""
from __future__ import annotations

import asyncio
import os
import random
from typing import Any, Callable

from .nodes import Node, know
from .simnet import SimNet

RELAY, EXIT_BT, EXIT_IPV8, SPEED = 1, 2, 4, 8


class Env:
    def __init__(self, loop: Any, auto: bool = True) -> None:
        self.loop = loop
        self.net = SimNet(loop, auto=auto)
        self.nodes: list[Node] = []
        self.target_node: Node | None = None
        self.target_overlay: Any = None
        self.extra_cleanup: list[Callable] = []
        self.on_target: Callable[[], None] | None = None
        self.stopped = False
        self.unload_fn: Callable | None = None
        self.variant = 0
        self.dispatcher: str | None = None       # "v4" / "dual": nodes are built on a DispatcherEndpoint

    def node(self, **kw: Any) -> Node:
        if self.dispatcher is not None:
            kw.setdefault("dispatcher", self.dispatcher)
        nd = Node(self.net, len(self.nodes), **kw)
        self.nodes.append(nd)
        return nd

    def t(self, fn: Callable[[], Any]) -> Any:
        """
        An application-level call on the observed overlay: skipped once the check has asked it to unload (the
        property is about what the overlay does by itself, not about a user who keeps calling it).
        """
        if self.stopped:
            return None
        return fn()

    async def ta(self, fn: Callable[[], Any], timeout: float = 15) -> Any:
        if self.stopped:
            return None
        try:
            return await asyncio.wait_for(fn(), timeout)
        except (Exception, asyncio.CancelledError):  # noqa: BLE001 - the overlay may cancel its own request tasks
            return None

    def target(self, node: Node, overlay: Any) -> None:
        self.target_node, self.target_overlay = node, overlay
        if self.on_target is not None:
            self.on_target()

    async def close(self) -> None:
        for f in self.extra_cleanup:
            try:
                f()
            except Exception:  # noqa: BLE001
                pass
        for nd in self.nodes:
            try:
                await nd.unload()
            except BaseException:  # noqa: BLE001
                pass


def _mk_community(name: str, cid: bytes) -> type:
    from ipv8.community import Community
    return type(name, (Community,), {"community_id": cid})


# ---- scenarios -----------------------------------------------------------------------------------------------------

async def sc_base(loop: Any, env: Env) -> None:
    """
    Minimal concrete Community: walks, introductions (old and new style), puncture request / puncture.
    """
    cls = _mk_community("PlainCommunity", b"\x11" * 20)
    nodes = [env.node() for _ in range(4)]
    ovs = [nd.add(cls) for nd in nodes]
    env.target(nodes[0], ovs[0])
    ovs[1].walk_to(nodes[0].address)
    await asyncio.sleep(0.1)
    ovs[2].walk_to(nodes[0].address)          # the target introduces node 1 and asks it to puncture
    await asyncio.sleep(0.1)
    env.t(lambda: ovs[0].walk_to(nodes[3].address))          # node 3 learns about the target
    await asyncio.sleep(0.1)
    ovs[1].walk_to(nodes[3].address)          # node 3 introduces the target: puncture-request -> target punctures
    await asyncio.sleep(0.1)
    env.t(lambda: ovs[0].walk_to(nodes[3].address))          # node 3 introduces node 1 to the target
    await asyncio.sleep(0.1)
    p0 = [p for p in ovs[1].get_peers() if p.public_key.key_to_bin() == nodes[0].key.pub().key_to_bin()]
    if p0:
        ovs[1].send_introduction_request(p0[0])
        p0[0].new_style_intro = True
        ovs[1].send_introduction_request(p0[0])
    await asyncio.sleep(0.1)
    for p in ovs[0].get_peers():
        env.t(lambda p=p: ovs[0].send_introduction_request(p))
    await asyncio.sleep(0.1)
    for _ in range(3):
        ovs[2].get_new_introduction()
        ovs[3].get_new_introduction()
        env.t(lambda: ovs[0].get_new_introduction())
        await asyncio.sleep(0.1)
    await asyncio.sleep(0.5)


async def sc_base_tunnel_endpoint(loop: Any, env: Env) -> None:
    """
    A plain (non-anonymised) Community whose node uses a TunnelEndpoint wrapper, as Tribler-style deployments do.
    """
    cls = _mk_community("PlainCommunity2", b"\x12" * 20)
    nodes = [env.node(tunnel_endpoint=(i == 0)) for i in range(3)]
    # "base_anon": the observed overlay is configured anonymize=True on that TunnelEndpoint (how IdentityCommunity is
    # deployed); without circuits its own packets wait in the queue, what it receives over the socket is handled as ever
    ovs = [nd.add(cls, **({"anonymize": True} if i == 0 and getattr(env, "anonymize", False) else {}))
           for i, nd in enumerate(nodes)]
    env.target(nodes[0], ovs[0])
    ovs[1].walk_to(nodes[0].address)
    await asyncio.sleep(0.1)
    env.t(lambda: ovs[0].walk_to(nodes[2].address))
    await asyncio.sleep(0.1)
    ovs[2].walk_to(nodes[0].address)
    for p in ovs[0].get_peers():
        env.t(lambda p=p: ovs[0].send_introduction_request(p))
    await asyncio.sleep(0.5)


class _FakeSocket:
    """
    Stands in for the OS socket the UDP broadcast bootstrapper creates by hand (no datagram leaves the sandbox).
    """

    def __init__(self, *a: Any, **kw: Any) -> None:
        self.closed = False
        self.sent = 0

    def setsockopt(self, *a: Any) -> None:
        pass

    def bind(self, addr: Any) -> None:
        pass

    def sendto(self, data: bytes, addr: Any) -> int:
        self.sent += 1
        return len(data)

    def getsockname(self) -> tuple:
        return ("0.0.0.0", 39999)

    def close(self) -> None:
        self.closed = True


async def sc_bootstrap(loop: Any, env: Env) -> None:
    """
    A Community that finds its first peers through its bootstrappers: the UDP broadcast bootstrapper (opens a socket of
    its own during initialisation) and the Dispersy bootstrapper (one address given, one host name to resolve).
    """
    from ipv8.bootstrapping.dispersy.bootstrapper import DispersyBootstrapper
    from ipv8.bootstrapping.udpbroadcast import bootstrapper as bb
    if bb.socket is not _FakeSocket:
        real = bb.socket
        bb.socket = _FakeSocket
        env.extra_cleanup.append(lambda: setattr(bb, "socket", real))
    cls = _mk_community("PlainCommunity3", b"\x13" * 20)
    nodes = [env.node() for _ in range(3)]
    ovs = [nd.add(cls) for nd in nodes]
    loop.hosts["tracker.example"] = nodes[2].address[0]
    import socket as _socket
    real_ghbn = _socket.gethostbyname
    ovs[0].bootstrappers = [bb.UDPBroadcastBootstrapper(bootstrap_timeout=2.0),
                            DispersyBootstrapper([nodes[1].address], [], bootstrap_timeout=2.0)]
    env.target(nodes[0], ovs[0])
    env.t(lambda: ovs[0].bootstrap())
    # a second walker of the same overlay asks for peers in the same tick (IPv8.on_tick steps all strategies back to
    # back): the bootstrappers are still initialising
    env.t(lambda: ovs[0].bootstrap())
    await asyncio.sleep(0.2)
    # another node's beacon arrives on the broadcast socket, then a packet of the overlay arrives there
    for t in loop.transports:
        if isinstance(t.protocol, bb.BroadcastBootstrapEndpoint) and not t.closed:
            t.inject(bb.HDR_ANNOUNCE + ovs[0].get_prefix(), nodes[2].address)
    await asyncio.sleep(0.2)
    ovs[2].walk_to(nodes[0].address)
    await asyncio.sleep(2.5)
    env.t(lambda: ovs[0].bootstrap())          # second round: both bootstrappers are initialised by now
    await asyncio.sleep(0.5)
    for b in ovs[0].bootstrappers:
        env.t(lambda b=b: b.keep_alive(ovs[0]))
    await asyncio.sleep(0.5)
    del real_ghbn


async def sc_discovery(loop: Any, env: Env) -> None:
    from ipv8.peerdiscovery.community import DiscoveryCommunity
    nodes = [env.node() for _ in range(3)]
    ovs = [nd.add(DiscoveryCommunity) for nd in nodes]
    env.target(nodes[0], ovs[0])
    ovs[1].walk_to(nodes[0].address)
    await asyncio.sleep(0.1)
    env.t(lambda: ovs[0].walk_to(nodes[2].address))
    await asyncio.sleep(0.1)
    for p in ovs[1].get_peers():
        ovs[1].send_ping(p)
    for p in ovs[0].get_peers():
        env.t(lambda p=p: ovs[0].send_ping(p))
        env.t(lambda p=p: ovs[0].send_similarity_request(p.address))
    await asyncio.sleep(0.1)
    ovs[2].walk_to(nodes[0].address)
    await asyncio.sleep(6.0)     # ping cache timeout is 5 s


async def sc_dht(loop: Any, env: Env) -> None:
    from ipv8.dht.discovery import DHTDiscoveryCommunity
    nodes = [env.node() for _ in range(5)]
    ovs = [nd.add(DHTDiscoveryCommunity) for nd in nodes]
    env.target(nodes[0], ovs[0])
    for i in range(1, 5):
        ovs[i].walk_to(nodes[0].address)
    await asyncio.sleep(0.2)
    for i in range(1, 4):
        ovs[i].walk_to(nodes[i + 1].address)
        env.t(lambda i=i: ovs[0].walk_to(nodes[i].address))
    await asyncio.sleep(0.5)
    key = b"\x42" * 20
    async def quiet(coro: Any) -> None:
        try:
            await asyncio.wait_for(coro, 15)
        except (Exception, asyncio.CancelledError):  # noqa: BLE001
            pass
    await quiet(ovs[1].store_value(key, b"value-1", sign=True))
    await env.ta(lambda: ovs[0].store_value(key, b"value-0", sign=False))
    await quiet(ovs[2].find_values(key))
    await env.ta(lambda: ovs[0].find_values(key))
    await quiet(ovs[3].store_peer())
    await env.ta(lambda: ovs[0].store_peer())
    await quiet(ovs[2].connect_peer(nodes[3].my_peer.mid))
    await env.ta(lambda: ovs[0].connect_peer(nodes[3].my_peer.mid))
    await asyncio.sleep(12.0)    # ping_all every 10 s


async def sc_tunnel(loop: Any, env: Env) -> None:
    """
    Circuit build 1-3 hops with the target in every role, data out/in, ping, speed test, destroy.
    """
    from ipv8.messaging.anonymization.community import TunnelCommunity
    allf = {RELAY, EXIT_BT, EXIT_IPV8, SPEED}
    if getattr(env, "no_ipv6", False):
        loop.ipv6_available = False       # a host without IPv6: the second outside socket of an exit cannot be opened
    nodes = [env.node() for _ in range(4)]
    for nd in nodes:
        nd.flags = allf
        ov = nd.add(TunnelCommunity)
        ov.settings.peer_flags = set(allf)
    for a in nodes:
        for b in nodes:
            if a is not b:
                know(a, b, 0, sorted(allf))
    env.target(nodes[0], nodes[0].overlay)
    random.seed(3)
    tov = nodes[0].overlay
    # the target as originator
    c1 = env.t(lambda: tov.create_circuit(2))
    await asyncio.sleep(0.3)
    if c1 is not None and c1.state == "READY":
        env.t(lambda: tov.send_data(c1.hop.address, c1.circuit_id, ("5.5.5.5", 5555), ("0.0.0.0", 0), b"d4:spame"))
        await asyncio.sleep(0.1)
        for t in loop.transports:
            if t.sent and not t.closed and t.local_addr[0] == "0.0.0.0":
                t.inject(b"d5:replye", ("5.5.5.5", 5555))
        env.t(lambda: tov.send_test_request(c1, 10, 20))
    # the target as relay / exit of other nodes' circuits
    for seed, origin, hops in ((4, 1, 3), (5, 2, 1), (6, 3, 2), (7, 1, 1)):
        random.seed(seed)
        ov = nodes[origin].overlay
        peer0 = [p for p in ov.candidates if p.public_key.key_to_bin() == nodes[0].key.pub().key_to_bin()]
        c = ov.create_circuit(hops, required_exit=peer0[0] if hops != 3 and peer0 else None)
        await asyncio.sleep(0.3)
        if c is not None and c.state == "READY":
            ov.send_data(c.hop.address, c.circuit_id, ("6.6.6.6", 6666), ("0.0.0.0", 0), b"d3:abce")
            ov.send_test_request(c, 5, 5)
    await asyncio.sleep(0.3)
    for t in loop.transports:
        if t.sent and not t.closed and t.local_addr[0] == "0.0.0.0":
            t.inject(b"d6:answere", t.sent[0][1])
    await asyncio.sleep(8.0)      # do_ping after 7.5 s
    if c1 is not None:
        env.t(lambda: tov.remove_circuit(c1.circuit_id, "done", destroy=True))
    for origin in (2, 3):
        ov = nodes[origin].overlay
        for cid in list(ov.circuits):
            ov.remove_circuit(cid, "done", destroy=True)
    await asyncio.sleep(7.0)


async def sc_tunnel_exit(loop: Any, env: Env) -> None:
    """
    The observed node is nothing but the exit of one other node's one-hop circuit: data goes out and comes back, then the
    originator destroys the circuit - for remove_tunnel_delay seconds the exit socket lingers, on its way out.
    """
    from ipv8.messaging.anonymization.community import TunnelCommunity
    allf = {RELAY, EXIT_BT, EXIT_IPV8, SPEED}
    nodes = [env.node() for _ in range(2)]
    for nd in nodes:
        nd.flags = allf
        ov = nd.add(TunnelCommunity)
        ov.settings.peer_flags = set(allf)
    know(nodes[0], nodes[1], 0, sorted(allf))
    know(nodes[1], nodes[0], 0, sorted(allf))
    env.target(nodes[0], nodes[0].overlay)
    random.seed(9)
    ov = nodes[1].overlay
    c = ov.create_circuit(1)
    await asyncio.sleep(0.3)
    if c is not None and c.state == "READY":
        ov.send_data(c.hop.address, c.circuit_id, ("6.6.6.6", 6666), ("0.0.0.0", 0), b"d3:abce")
        await asyncio.sleep(0.2)
        for t in loop.transports:
            if t.sent and not t.closed and t.local_addr[0] == "0.0.0.0":
                t.inject(b"d6:answere", t.sent[0][1])
        await asyncio.sleep(1.0)
        ov.remove_circuit(c.circuit_id, "done", destroy=True)
    await asyncio.sleep(2.0)
    # late answers from outside while the exit socket lingers
    for t in loop.transports:
        if t.sent and not t.closed and t.local_addr[0] == "0.0.0.0":
            t.inject(b"d4:latee", t.sent[0][1])
    await asyncio.sleep(6.0)


async def sc_tunnel_prerelay(loop: Any, env: Env) -> None:
    """
    The observed node first serves as the exit of a circuit that is still being extended (the originator uses the
    partial circuit: legal for a remote originator), then becomes a relay of it; data keeps flowing afterwards.
    """
    from ipv8.messaging.anonymization.community import TunnelCommunity
    allf = {RELAY, EXIT_BT, EXIT_IPV8, SPEED}
    nodes = [env.node() for _ in range(3)]
    for nd in nodes:
        nd.flags = allf
        ov = nd.add(TunnelCommunity)
        ov.settings.peer_flags = set(allf)
    b, a, c = nodes
    for x in nodes:
        for y in nodes:
            if x is not y:
                know(x, y, 0, sorted(allf))
    env.target(b, b.overlay)
    random.seed(11)
    prefix = a.overlay.get_prefix()
    held: list = []
    state = {"created": False}

    def hook(fl):
        d = fl.data
        if len(d) < 29 or d[:22] != prefix or d[22] != 0:
            return None
        if d[27] != 0:
            if d[29:30] == b"\x03" and fl.dst == a.address:
                state["created"] = True
            return None
        if fl.origin is a.raw_endpoint and state["created"] and not held and not state.get("released"):
            held.append(fl)            # the (encrypted) extend: waits until data has exited through the partial circuit
            return []
        return None
    env.net.on_send = hook
    cpeer = next(p for p in a.overlay.candidates if p.public_key.key_to_bin() == c.key.pub().key_to_bin())
    circ = a.overlay.create_circuit(2, required_exit=cpeer)
    await asyncio.sleep(0.3)
    if circ is not None and circ.hops and held:
        a.overlay.send_data(circ.hop.address, circ.circuit_id, ("6.6.6.6", 6666), ("0.0.0.0", 0), b"d5:earlye")
        await asyncio.sleep(0.3)
    state["released"] = True
    env.net.on_send = None
    for fl in held:
        env.net.inject(fl.src, fl.dst, fl.data, note="extend released")
    await asyncio.sleep(1.0)
    if circ is not None and circ.state == "READY":
        a.overlay.send_data(circ.hop.address, circ.circuit_id, ("6.6.6.7", 6667), ("0.0.0.0", 0), b"d4:latee")
    await asyncio.sleep(1.0)
    for t in loop.transports:
        if t.sent and not t.closed and t.local_addr[0] == "0.0.0.0":
            t.inject(b"d6:answere", t.sent[0][1])
    await asyncio.sleep(7.0)


async def sc_hidden(loop: Any, env: Env) -> None:
    """
    Hidden services: the observed node seeds a swarm (introduction point, rendezvous, e2e link, data both ways).
    """
    from .tunnelsim import HiddenWorld
    w = HiddenWorld(loop, 6, net=env.net)
    env.nodes.extend(w.nodes)
    env.extra_cleanup.append(w.trace.uninstall)
    seeder, downloader = w.nodes[0], w.nodes[1]
    env.target(seeder, seeder.overlay)
    random.seed(4)
    info_hash = b"\x33" * 20
    got: list = []
    env.t(lambda: seeder.overlay.join_swarm(info_hash, 1, lambda addr: got.append(addr), seeding=True))
    downloader.overlay.join_swarm(info_hash, 1, lambda addr: got.append(addr), seeding=False)
    await env.ta(lambda: seeder.overlay.create_introduction_point(info_hash), 30)
    await asyncio.sleep(1.0)
    downloader.overlay.build_tunnels(1)
    await asyncio.sleep(1.0)
    try:
        await asyncio.wait_for(downloader.overlay.do_peer_discovery(), 30)
    except (Exception, asyncio.CancelledError):  # noqa: BLE001
        pass
    await asyncio.sleep(3.0)
    d = [c for c in downloader.overlay.circuits.values() if c.ctype == "RP_DOWNLOADER" and c.e2e]
    s = [c for c in seeder.overlay.circuits.values() if c.ctype == "RP_SEEDER" and c.hs_session_keys is not None]
    if d:
        downloader.overlay.send_data(d[0].hop.address, d[0].circuit_id, ("0.0.0.0", 0), ("0.0.0.0", 0), b"d3:e2ee")
    if s:
        env.t(lambda: seeder.overlay.send_data(s[0].hop.address, s[0].circuit_id, ("0.0.0.0", 0), ("0.0.0.0", 0), b"d4:backe"))
    await asyncio.sleep(12.0)


async def sc_service(loop: Any, env: Env) -> None:
    """
    Three complete IPv8 service instances (ipv8_service.IPv8) with the DEFAULT configuration - Discovery, HiddenTunnel
    and DHTDiscovery overlays with their walkers, ticking every walker_interval - on simulated endpoints. The observed
    overlay (rotating with env.variant) is unloaded through ``IPv8.unload_overlay``, as an application would do.
    """
    import base64
    import copy

    from ipv8.configuration import get_default_configuration
    from ipv8_service import IPv8

    from . import keypool
    nodes = [env.node() for _ in range(3)]
    instances = []
    for i, nd in enumerate(nodes):
        cfg = copy.deepcopy(get_default_configuration())
        cfg["keys"] = [{"alias": "anonymous id", "bin": base64.b64encode(keypool.private_bin(i)).decode(), "file": None}]
        cfg["logger"] = {"level": "CRITICAL"}
        for ov in cfg["overlays"]:
            for b in ov["bootstrappers"]:
                b["init"] = {"ip_addresses": [list(nodes[(i + 1) % 3].address)], "dns_addresses": [],
                             "bootstrap_timeout": 5.0}
        # variants 3..5: the same with the statistics wrapper around the endpoint (IPv8(..., enable_statistics=True))
        inst = IPv8(cfg, endpoint_override=nd.endpoint, enable_statistics=getattr(env, "variant", 0) >= 3)
        nd.overlays = list(inst.overlays)
        for ov in inst.overlays:
            ov.my_estimated_wan = nd.address
            ov.my_estimated_lan = nd.address
        instances.append(inst)
    which = getattr(env, "variant", 0) % len(instances[0].overlays)
    target = instances[0].overlays[which]
    env.unload_fn = lambda: instances[0].unload_overlay(target)

    async def stop_all() -> None:
        for inst in instances:
            if inst.state_machine_task:
                inst.state_machine_task.cancel()
    env.extra_cleanup.append(lambda: [inst.state_machine_task.cancel() for inst in instances if inst.state_machine_task])
    env.instances = instances
    env.target(nodes[0], target)
    for inst in instances:
        await inst.start()
    await asyncio.sleep(20.0)


async def sc_pex(loop: Any, env: Env) -> None:
    from ipv8.messaging.anonymization.pex import PexCommunity
    nodes = [env.node() for _ in range(3)]
    ovs = [nd.add(PexCommunity, info_hash=b"\x07" * 20) for nd in nodes]
    env.target(nodes[0], ovs[0])
    env.t(lambda: ovs[0].start_announce(b"seeder-key-0"))
    ovs[1].start_announce(b"seeder-key-1")
    ovs[1].walk_to(nodes[0].address)
    ovs[2].walk_to(nodes[0].address)
    await asyncio.sleep(0.1)
    env.t(lambda: ovs[0].walk_to(nodes[2].address))
    for p in ovs[0].get_peers():
        env.t(lambda p=p: ovs[0].send_ping(p))
    await asyncio.sleep(0.5)


async def sc_identity(loop: Any, env: Env) -> None:
    from ipv8.attestation.identity.community import IdentityCommunity
    from ipv8.attestation.identity.manager import IdentityManager
    anon = getattr(env, "anonymize", False)
    nodes = [env.node(tunnel_endpoint=(i == 0 and anon)) for i in range(3)]
    ovs = [nd.add(IdentityCommunity, identity_manager=IdentityManager(":memory:"), **({"anonymize": True} if i == 0 and anon else {}))
           for i, nd in enumerate(nodes)]
    for a in nodes:
        for b in nodes:
            if a is not b:
                know(a, b)
    env.target(nodes[0], ovs[0])
    peer = {i: {j: [p for p in ovs[i].get_peers() if p.public_key.key_to_bin() == nodes[j].key.pub().key_to_bin()][0]
                for j in range(3) if j != i} for i in range(3)}
    # the target as attester of a subject with a long chain: the disclosure is trimmed, missing tokens are requested
    for i in range(14):
        ovs[1].self_advertise(bytes([0x40 + i]) * 32, "own%d" % i)
    h1 = b"\x01" * 32
    env.t(lambda: ovs[0].add_known_hash(h1, "attribute", nodes[1].key.pub().key_to_bin()))
    ovs[1].request_attestation_advertisement(peer[1][0], h1, "attribute")
    await asyncio.sleep(0.5)
    # the target as subject, also with a long chain
    for i in range(14):
        env.t(lambda i=i: ovs[0].self_advertise(bytes([0x20 + i]) * 32, "self%d" % i))
    h2 = b"\x02" * 32
    ovs[2].add_known_hash(h2, "other", nodes[0].key.pub().key_to_bin())
    env.t(lambda: ovs[0].request_attestation_advertisement(peer[0][2], h2, "other"))
    await asyncio.sleep(0.5)
    # a short honest exchange as well
    h3 = b"\x03" * 32
    env.t(lambda: ovs[0].add_known_hash(h3, "third", nodes[2].key.pub().key_to_bin()))
    ovs[2].request_attestation_advertisement(peer[2][0], h3, "third")
    await asyncio.sleep(0.5)


async def sc_attestation(loop: Any, env: Env) -> None:
    from binascii import unhexlify

    from ipv8.attestation.wallet.community import AttestationCommunity
    from ipv8.attestation.wallet.primitives.structs import BonehPrivateKey
    from ipv8.util import succeed
    sk = BonehPrivateKey.unserialize(unhexlify("01064c65dcb113f901064228da3ea57101064793a4f9c77901062b083e"
                                               "8690fb0106408293c67e9f010601d1a9d3744901030f4243"))
    nodes = [env.node() for _ in range(2)]
    ovs = [nd.add(AttestationCommunity, working_directory=":memory:") for nd in nodes]
    know(nodes[0], nodes[1])
    know(nodes[1], nodes[0])
    env.target(nodes[0], ovs[0])
    p01 = ovs[0].get_peers()[0]
    p10 = ovs[1].get_peers()[0]
    got: dict = {}
    def slow_value(peer: Any, name: str, md: Any) -> Any:
        # the user of the observed node takes two seconds to decide: the handler coroutine is pending meanwhile
        fut = loop.create_future()
        loop.call_later(2.0, lambda: fut.done() or fut.set_result(b"AttributeValue"))
        return fut
    ovs[0].set_attestation_request_callback(slow_value)
    ovs[1].set_attestation_request_callback(lambda peer, name, md: succeed(b"OtherValue"))
    ovs[1].set_attestation_request_complete_callback(lambda *a: None)
    # node 1 asks the target to attest; node 1 then owns an attestation
    ovs[1].request_attestation(p10, "MyAttribute", sk)
    await asyncio.sleep(3.0)
    # the target asks node 1 to attest; the target then owns one as well
    env.t(lambda: ovs[0].request_attestation(p01, "Mine", sk))
    await asyncio.sleep(1.0)
    # verification in both directions
    for owner, verifier, vpeer in ((1, 0, nodes[1].address), (0, 1, nodes[0].address)):
        hashes = list(ovs[owner].attestation_keys)
        if not hashes:
            continue
        ovs[owner].set_verify_request_callback(lambda peer, h: succeed(True))
        call = (lambda verifier=verifier, vpeer=vpeer, hashes=hashes: ovs[verifier].verify_attestation_values(
            vpeer, hashes[0], [b"AttributeValue", b"OtherValue"], lambda h, v: got.setdefault(h, v), "id_metadata"))
        if verifier == 0:
            env.t(call)
        else:
            call()
    await asyncio.sleep(2.0)


SCENARIOS: dict[str, Callable] = {
    "base": sc_base,
    "base_te": sc_base_tunnel_endpoint,
    "base_anon": sc_base_tunnel_endpoint,
    "identity_anon": sc_identity,
    "bootstrap": sc_bootstrap,
    "discovery": sc_discovery,
    "dht": sc_dht,
    "tunnel": sc_tunnel,
    "tunnel_no6": sc_tunnel,
    "tunnel_dual": sc_tunnel,
    "tunnel_exit": sc_tunnel_exit,
    "tunnel_prerelay": sc_tunnel_prerelay,
    "hidden": sc_hidden,
    "service0": sc_service,
    "service1": sc_service,
    "service2": sc_service,
    "service3": sc_service,
    "service4": sc_service,
    "service5": sc_service,
    "pex": sc_pex,
    "identity": sc_identity,
    "attestation": sc_attestation,
}


# scenarios used as traffic corpus by C01 / C03 (the three service variants produce the same kinds of datagrams)
CORPUS_SCENARIOS = [n for n in SCENARIOS if n not in ("service1", "service2", "service3", "service4", "service5", "tunnel_no6", "tunnel_dual", "tunnel_exit", "tunnel_prerelay")]


async def run_scenario(loop: Any, name: str, env: Env | None = None) -> Env:
    env = env or Env(loop)
    random.seed(1234)
    if name.startswith("service"):
        env.variant = int(name[7:])
    if name.endswith("_no6"):
        env.no_ipv6 = True
    if name == "tunnel_dual":
        env.dispatcher = "dual"
    if name.endswith("_anon"):
        env.anonymize = True
    await SCENARIOS[name](loop, env)
    return env


def classify(data: bytes, overlay: Any) -> dict:
    """
    Label a datagram addressed to ``overlay``: message id and whether it carries an authentication header that
    parses and a signature that verifies (reference verdict, computed from the bytes alone).
    """
    from .sigref import ref_valid
    out = {"msg_id": data[22] if len(data) > 22 else None, "signed": False}
    if len(data) > 23 and data[:22] == overlay.get_prefix():
        out["signed"] = ref_valid(data)[0]
    return out


def corpus(loop_runner: Callable, names: list[str] | None = None) -> dict[str, list]:
    raise NotImplementedError
