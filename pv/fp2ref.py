"""
Independent reference for the arithmetic of F_p[x]/(x^2+x+1), p prime, p = 2 (mod 3), used by the C18 check.

Elements are reduced pairs (u, v) = u + v*x with 0 <= u, v < p and x^2 = -x - 1. Inverses are explicit
(norm + Fermat inverse in F_p), nothing is shared with ``ipv8.attestation.wallet.primitives.value``.

A value of the code under test is a fraction (a + b x + c x^2) / (aC + bC x + cC x^2); ``value6`` maps the six
coefficients to the field element they denote (None when the denominator is not invertible).
"""
from __future__ import annotations

from functools import lru_cache

Pair = tuple  # (u, v)

_SMALL_PRIMES = (2, 3, 5, 7, 11, 13, 17, 19, 23, 29, 31, 37)
# fixed extra witnesses for numbers beyond the deterministic range of the first twelve primes (< 3.3e24)
_EXTRA_WITNESSES = (41, 43, 47, 53, 59, 61, 67, 71, 73, 79, 83, 89, 97, 101, 103, 107, 109, 113, 127, 131,
                    137, 139, 149, 151, 157, 163, 167, 173, 179, 181, 191, 193, 197, 199, 211, 223, 227, 229)


def is_prime(n: int) -> bool:
    """
    Miller-Rabin: deterministic below 3.3e24 (first twelve primes as bases), 50 fixed bases above
    (error < 4^-50 for a composite; candidates are never adversarial here).
    """
    if n < 2:
        return False
    for q in _SMALL_PRIMES:
        if n % q == 0:
            return n == q
    d, s = n - 1, 0
    while d % 2 == 0:
        d //= 2
        s += 1
    bases = _SMALL_PRIMES if n < 3_317_044_064_679_887_385_961_981 else _SMALL_PRIMES + _EXTRA_WITNESSES
    for a in bases:
        x = pow(a, d, n)
        if x in (1, n - 1):
            continue
        for _ in range(s - 1):
            x = x * x % n
            if x == n - 1:
                break
        else:
            return False
    return True


def next_field_prime(start: int) -> int:
    """
    The smallest prime p >= start with p = 2 (mod 3) (then x^2+x+1 is irreducible over F_p).
    """
    n = max(start, 2)
    n += (2 - n) % 3
    while not is_prime(n):
        n += 3
    return n


@lru_cache(maxsize=None)
def field_primes_below(limit: int) -> tuple:
    return tuple(p for p in range(2, limit) if p % 3 == 2 and is_prime(p))


# a fixed 255-bit prime = 2 (mod 3): the evaluation field of the polynomial-identity (Schwartz-Zippel) test
P255 = next_field_prime(2 ** 254 + 0xC18)


def red3(p: int, a: int, b: int, c: int) -> Pair:
    """
    a + b x + c x^2 reduced with x^2 = -x - 1.
    """
    return ((a - c) % p, (b - c) % p)


def add(p: int, l: Pair, r: Pair) -> Pair:
    return ((l[0] + r[0]) % p, (l[1] + r[1]) % p)


def neg(p: int, l: Pair) -> Pair:
    return ((-l[0]) % p, (-l[1]) % p)


def sub(p: int, l: Pair, r: Pair) -> Pair:
    return ((l[0] - r[0]) % p, (l[1] - r[1]) % p)


def mul(p: int, l: Pair, r: Pair) -> Pair:
    # (u1 + v1 x)(u2 + v2 x) = u1u2 + (u1v2 + v1u2) x + v1v2 x^2,  x^2 = -1 - x
    t = l[1] * r[1]
    return ((l[0] * r[0] - t) % p, (l[0] * r[1] + l[1] * r[0] - t) % p)


def fp_inv(p: int, n: int) -> int:
    n %= p
    if n == 0:
        raise ZeroDivisionError("0 has no inverse in F_p")
    r = pow(n, -1, p)   # CPython's extended Euclid; the result is verified, so nothing is trusted blindly
    if n * r % p != 1:
        raise AssertionError("modular inverse self-check failed")
    return r


def inv(p: int, l: Pair) -> Pair:
    """
    1/(u + v x) = (u + v x^2)/N with the norm N = (u + v x)(u + v x^2) = u^2 - u v + v^2, and u + v x^2 = (u - v) - v x.
    """
    u, v = l
    norm = (u * u - u * v + v * v) % p
    if norm == 0:
        if (u, v) != (0, 0):
            raise AssertionError(f"norm of a non-zero element vanishes: modulus {p} is not a prime = 2 mod 3")
        raise ZeroDivisionError("0 has no inverse")
    ni = fp_inv(p, norm)
    out = ((u - v) * ni % p, (-v) * ni % p)
    if mul(p, l, out) != (1 % p, 0):
        raise AssertionError("field inverse self-check failed")
    return out


def div(p: int, l: Pair, r: Pair) -> Pair:
    return mul(p, l, inv(p, r))


def power(p: int, l: Pair, k: int) -> Pair:
    if k < 0:
        l = inv(p, l)
        k = -k
    out = (1 % p, 0)
    # left-to-right binary method (the code under test goes right-to-left)
    for bit in bin(k)[2:] if k else "":
        out = mul(p, out, out)
        if bit == "1":
            out = mul(p, out, l)
    return out


def value6(p: int, co: list | tuple) -> Pair | None:
    """
    Field element denoted by the six coefficients (a, b, c, aC, bC, cC); None if the denominator is 0.
    """
    den = red3(p, co[3], co[4], co[5])
    if den == (0, 0):
        return None
    return mul(p, red3(p, co[0], co[1], co[2]), inv(p, den))
