#!/bin/bash
# Offline bootstrap: hypothesis beside the repository's packages, atheris into /verif/.deps.
HERE="$(cd "$(dirname "${BASH_SOURCE[0]}")" && pwd)"
cd "$HERE" || exit 2
export PIP_NO_INDEX=1
W=/opt/veriftools/wheels
/venv/bin/python -c "import hypothesis" 2>/dev/null || /venv/bin/pip install -q --no-index --find-links "$W" hypothesis || exit 2
mkdir -p .deps
PYTHONPATH="$HERE/.deps" /venv/bin/python -c "import atheris" 2>/dev/null || \
  /venv/bin/pip install -q --no-index --find-links "$W" --target "$HERE/.deps" atheris 2>/dev/null || \
  echo "setup: atheris not installable for /venv python (fuzz tier of C03 will be skipped and say so)"
/venv/bin/python -c "import ipv8, hypothesis; print('setup ok: hypothesis', hypothesis.__version__)" || exit 2
mkdir -p evidence replays
exit 0
